(** Interleaving model of skiplist/access_barrier.go (Acquire / Release / FlushSession / doCleanup).
    One atomic segment per stretch of code between two verif yield points:
      Acquire : [load session] -P20- [add 1; test; (back off: Release ... then retry)]
      Release : [add -1; tests] -P21- [closed latch] -P22- [queue insert] -P23- [try-lock; SeekFirst]
                -P24- one doCleanup iteration each -P25- [try-lock reset] -P26- [re-examine the queue]
      Flush   : [Lock; load session] -P27- [swap pointer, tag old session] -P28- [add offset+1]
                -P29- Release(old) ... [Unlock]
    Sessions are numbered in creation order (0 = the initial one). *)
From Coq Require Import List Arith ZArith Lia Bool.
From NV Require Import Base.Sched.
Import ListNotations.
Open Scope Z_scope.

Definition offset : Z := 1073741823.   (* math.MaxInt32 / 2 *)

Record sess := mkSess { live : Z; closed : nat; seqno : nat; oref : nat }.

Record shared := mkSh {
  sessions : list sess;
  cur_sess : nat;
  activeSeqno : nat;
  freeSeqno : nat;
  freeq : list nat;              (* session ids, ascending seqno *)
  running : bool;                (* isDestructorRunning *)
  mutex : option nat;
  destructed : list (nat * nat); (* ghost: (seqno, objectRef) in callback order *)
  panicked : bool
}.

(** continuation after a Release finishes *)
Inductive cont := KDone | KRetry | KUnlock.

Inductive local :=
| LAcq (s : nat)                       (* session loaded, before the increment *)
| LAcqBack (s : nat)                   (* incremented a closed session, before backing off through Release *)
| LRelZero (s : nat) (k : cont)        (* decrement reached the offset *)
| LRelLatched (s : nat) (k : cont)     (* closed latch won, before the queue insert *)
| LRelQueued (s : nat) (k : cont)      (* queued, before the try-lock *)
| LClean (c : nat) (k : cont)          (* doCleanup standing on queued session c *)
| LCleanEnd (k : cont)                 (* doCleanup returned, flag still set *)
| LCleanReset (k : cont)               (* flag reset, before re-examining the queue (repaired code) *)
| LFlush1 (s : nat) (r : nat)          (* locked, session loaded *)
| LFlush2 (s : nat)                    (* pointer swapped, old session tagged *)
| LFlush3 (s : nat).                   (* offset added, before the flusher's own Release *)

Inductive op := OAcquire | ORelease (k : nat) | OFlush (r : nat).
Inductive result := RTok (s : nat) | RUnit | RMisuse | RPanic.

(** per-thread ghost: tokens held (session ids), most recent first *)
Definition pers := list nat.

Definition get (sh : shared) (s : nat) : sess := nth s (sessions sh) (mkSess 0 0 0 0).

Fixpoint set_nth {A} (i : nat) (v : A) (l : list A) : list A :=
  match l, i with
  | [], _ => []
  | _ :: r, O => v :: r
  | x :: r, S j => x :: set_nth j v r
  end.

Definition set_sessions (sh : shared) (l : list sess) : shared :=
  mkSh l (cur_sess sh) (activeSeqno sh) (freeSeqno sh) (freeq sh) (running sh) (mutex sh) (destructed sh) (panicked sh).
Definition upd_sess (sh : shared) (s : nat) (x : sess) : shared := set_sessions sh (set_nth s x (sessions sh)).

Fixpoint insert_q (sh : shared) (s : nat) (q : list nat) : list nat :=
  match q with
  | [] => [s]
  | x :: r => if (seqno (get sh s) <? seqno (get sh x))%nat then s :: q else x :: insert_q sh s r
  end.

Fixpoint remove_nat (s : nat) (q : list nat) : list nat :=
  match q with [] => [] | x :: r => if Nat.eqb x s then r else x :: remove_nat s r end.

Definition first_after (sh : shared) (n : nat) : option nat :=
  find (fun x => (n <? seqno (get sh x))%nat) (freeq sh).

Section Machine.
(** [fixed = true]: after resetting the try-lock the queue head is re-examined (repaired code) *)
Variable fixed : bool.

Definition finish (k : cont) (p : pers) (sh : shared) (tok : option nat) : shared * pers * (local + result) :=
  match k with
  | KDone => (sh, p, inr RUnit)
  | KUnlock => (mkSh (sessions sh) (cur_sess sh) (activeSeqno sh) (freeSeqno sh) (freeq sh) (running sh) None
                     (destructed sh) (panicked sh), p, inr RUnit)
  | KRetry => (sh, p, inl (LAcq (cur_sess sh)))    (* goto retry: load the session again *)
  end.

(** Release(bs): the decrement and its tests *)
Definition rel_dec (s : nat) (k : cont) (p : pers) (sh : shared) : shared * pers * (local + result) :=
  let x := get sh s in
  let nl := live x - 1 in
  let sh1 := upd_sess sh s (mkSess nl (closed x) (seqno x) (oref x)) in
  if nl =? offset then (sh1, p, inl (LRelZero s k))
  else if (nl <? 0) || (nl =? offset - 1) then
    (mkSh (sessions sh1) (cur_sess sh1) (activeSeqno sh1) (freeSeqno sh1) (freeq sh1) (running sh1) (mutex sh1)
          (destructed sh1) true, p, inr RPanic)
  else finish k p sh1 None.

(** try-lock + SeekFirst of doCleanup *)
Definition try_clean (k : cont) (p : pers) (sh : shared) : shared * pers * (local + result) :=
  if running sh then finish k p sh None
  else
    let sh1 := mkSh (sessions sh) (cur_sess sh) (activeSeqno sh) (freeSeqno sh) (freeq sh) true (mutex sh)
                    (destructed sh) (panicked sh) in
    match freeq sh1 with
    | c :: _ => (sh1, p, inl (LClean c k))
    | [] => (sh1, p, inl (LCleanEnd k))
    end.

Definition begin (tid : nat) (o : op) (p : pers) (sh : shared) : shared * pers * (local + result) :=
  match o with
  | OAcquire => (sh, p, inl (LAcq (cur_sess sh)))
  | ORelease k =>
    match nth_error p k with
    | Some s => rel_dec s KDone (firstn k p ++ skipn (S k) p) sh
    | None => (sh, p, inr RMisuse)
    end
  | OFlush r =>
    (mkSh (sessions sh) (cur_sess sh) (activeSeqno sh) (freeSeqno sh) (freeq sh) (running sh) (Some tid)
          (destructed sh) (panicked sh), p, inl (LFlush1 (cur_sess sh) r))
  end.

Definition step (tid : nat) (l : local) (p : pers) (sh : shared) : shared * pers * (local + result) :=
  match l with
  | LAcq s =>
    let x := get sh s in
    let nl := live x + 1 in
    let sh1 := upd_sess sh s (mkSess nl (closed x) (seqno x) (oref x)) in
    if offset <? nl then (sh1, p, inl (LAcqBack s))
    else (sh1, s :: p, inr (RTok s))
  | LAcqBack s => rel_dec s KRetry p sh
  | LRelZero s k =>
    let x := get sh s in
    let sh1 := upd_sess sh s (mkSess (live x) (S (closed x)) (seqno x) (oref x)) in
    if Nat.eqb (S (closed x)) 1 then (sh1, p, inl (LRelLatched s k)) else finish k p sh1 None
  | LRelLatched s k =>
    (mkSh (sessions sh) (cur_sess sh) (activeSeqno sh) (freeSeqno sh) (insert_q sh s (freeq sh)) (running sh)
          (mutex sh) (destructed sh) (panicked sh), p, inl (LRelQueued s k))
  | LRelQueued s k => try_clean k p sh
  | LClean c k =>
    let x := get sh c in
    if Nat.eqb (seqno x) (S (freeSeqno sh)) then
      let sh1 := mkSh (sessions sh) (cur_sess sh) (activeSeqno sh) (S (freeSeqno sh)) (remove_nat c (freeq sh))
                      (running sh) (mutex sh) (destructed sh ++ [(seqno x, oref x)]) (panicked sh) in
      match first_after sh1 (seqno x) with
      | Some c' => (sh1, p, inl (LClean c' k))
      | None => (sh1, p, inl (LCleanEnd k))
      end
    else (sh, p, inl (LCleanEnd k))
  | LCleanEnd k =>
    let sh1 := mkSh (sessions sh) (cur_sess sh) (activeSeqno sh) (freeSeqno sh) (freeq sh) false (mutex sh)
                    (destructed sh) (panicked sh) in
    if fixed then (sh1, p, inl (LCleanReset k)) else finish k p sh1 None
  | LCleanReset k =>
    match freeq sh with
    | c :: _ => if Nat.eqb (seqno (get sh c)) (S (freeSeqno sh)) then try_clean k p sh else finish k p sh None
    | [] => finish k p sh None
    end
  | LFlush1 s r =>
    let x := get sh s in
    let n := S (activeSeqno sh) in
    let sl := set_nth s (mkSess (live x) (closed x) n r) (sessions sh) ++ [mkSess 0 0 0 0] in
    (mkSh sl (length (sessions sh)) n (freeSeqno sh) (freeq sh) (running sh) (mutex sh) (destructed sh) (panicked sh),
     p, inl (LFlush2 s))
  | LFlush2 s =>
    let x := get sh s in
    (upd_sess sh s (mkSess (live x + offset + 1) (closed x) (seqno x) (oref x)), p, inl (LFlush3 s))
  | LFlush3 s => rel_dec s KUnlock p sh
  end.

Definition blocked (l : local) (sh : shared) : bool := false.
Definition blocked_begin (o : op) (sh : shared) : bool :=
  match o, mutex sh with OFlush _, Some _ => true | _, _ => false end.

Definition sysT := sys shared local pers op result.
Definition stepS : sysT -> nat -> sysT := step_at shared local pers op result begin step blocked blocked_begin.
Definition runS : sysT -> list nat -> sysT := run shared local pers op result begin step blocked blocked_begin.

End Machine.

Definition init_sh : shared := mkSh [mkSess 0 0 0 0] 0 0 0 [] false None [] false.
Definition init (progs : list (list op)) : sysT :=
  mkSys init_sh (map (fun p => mkThread p None (@nil nat) []) progs).
