From Coq Require Import List Arith Lia Bool Sorting.Permutation.
From NV Require Import Base.Sched Conc.VisitPool.
Import ListNotations.

Definition quiescentV (y : sysT) : bool := quiescent shared local pers op result y.

(** C10 "it always terminates": with a channel as large as the number of shards (what the code
    allocates), for every number of shards, every set of failing shards — including ALL of them, so that
    every worker gives up —, every number c >= 1 of workers and every schedule: a state that is not
    finished always has an enabled thread ... *)
Definition stmt_visit_no_deadlock : Prop :=
  forall n k b c sched, (1 <= c)%nat -> (n <= k)%nat ->
    let y := runS c (init n k b c) sched in
    quiescentV y = true \/ exists i, enabled c y i = true.

(** ... every enabled step decreases a measure, so every fair run terminates ... *)
Definition measure (y : sysT) : nat :=
  let s := sh y in
  3 * (nshards s - next s) + 2 * length (queue s) + (if closed s then 0 else 1)
  + 3 * length (filter (fun t => match cur t, todo t with None, [] => false | _, _ => true end) (ths y))
  + length (filter (fun t => match cur t with None => true | _ => false end) (ths y)).

Definition stmt_visit_measure : Prop :=
  forall n k b c sched i, (1 <= c)%nat -> (n <= k)%nat ->
    let y := runS c (init n k b c) sched in
    enabled c y i = true -> (measure (stepS c y i) < measure y)%nat.

(** ... and at the end: no shard was visited twice, shards are taken in order, the recorded failures are
    exactly the failing visited shards, if no shard fails every shard was visited exactly once, and if some
    shard fails an error is recorded (Visitor returns an error) *)
Definition stmt_visit_complete : Prop :=
  forall n k b c sched, (1 <= c)%nat -> (n <= k)%nat ->
    let y := runS c (init n k b c) sched in
    quiescentV y = true ->
    NoDup (visited (sh y)) /\ incl (visited (sh y)) (seq 0 n) /\
    errors (sh y) = filter b (visited (sh y)) /\
    ((forall s, (s < n)%nat -> b s = false) -> Permutation (visited (sh y)) (seq 0 n)) /\
    ((exists s, (s < n)%nat /\ b s = true) -> errors (sh y) <> []).

(** regression witness (seeded change S30): with a channel of capacity c instead, two workers that
    both fail and six shards, the caller blocks for ever *)
Definition stmt_visit_small_channel_stuck : Prop :=
  exists sched,
    let y := runS 2 (init 6 2 (fun _ => true) 2) sched in
    quiescentV y = false /\ forallb (fun i => negb (enabled 2 y i)) [0; 1; 2]%nat = true.
