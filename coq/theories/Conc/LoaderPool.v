(** The shard loader pool of LoadFromDisk (nitro.go): a feeder sends the shard numbers 0..n-1 over an
    unbuffered channel, closes it and waits; [c] loader goroutines receive shard numbers and read the
    shard; a read error is recorded.  [fixed = true]: a loader that hits an error goes on receiving
    (repaired code); [false]: it returns (original code).  The unbuffered channel is a one-place slot:
    the feeder cannot offer the next shard before the previous one was taken. *)
From Coq Require Import List Arith Lia Bool.
From NV Require Import Base.Sched.
Import ListNotations.

Record shared := mkSh {
  nshards : nat;
  bad : nat -> bool;              (* shard s fails to read *)
  next : nat;                     (* next shard the feeder will offer *)
  slot : option nat;              (* value in flight on the channel *)
  closed : bool;
  loaded : list nat;              (* shards read (successfully or not), in completion order *)
  errors : list nat;              (* shards whose read failed *)
  exited : nat                    (* loader goroutines that have returned (wg.Done) *)
}.

Inductive local :=
| LFeed                           (* feeder: in the send loop *)
| LWait                           (* feeder: channel closed, in wg.Wait *)
| LRecv.                          (* loader: blocked in / about to receive *)

Inductive op := OFeeder | OLoader.
Inductive result := RDone.
Definition pers := unit.

Section Machine.
Variable fixed : bool.
Variable nloaders : nat.

Definition begin (tid : nat) (o : op) (p : pers) (sh : shared) : shared * pers * (local + result) :=
  match o with
  | OFeeder => (sh, p, inl LFeed)
  | OLoader => (sh, p, inl LRecv)
  end.

Definition step (tid : nat) (l : local) (p : pers) (sh : shared) : shared * pers * (local + result) :=
  match l with
  | LFeed =>
    if (next sh <? nshards sh) then
      (* offer the next shard (enabled only when the slot is empty, see [blocked]) *)
      (mkSh (nshards sh) (bad sh) (S (next sh)) (Some (next sh)) (closed sh) (loaded sh) (errors sh) (exited sh), p, inl LFeed)
    else
      (mkSh (nshards sh) (bad sh) (next sh) (slot sh) true (loaded sh) (errors sh) (exited sh), p, inl LWait)
  | LWait => (sh, p, inr RDone)        (* enabled only when every loader has exited *)
  | LRecv =>
    match slot sh with
    | Some s =>
      let sh1 := mkSh (nshards sh) (bad sh) (next sh) None (closed sh) (loaded sh ++ [s])
                      (if bad sh s then errors sh ++ [s] else errors sh) (exited sh) in
      if bad sh s && negb fixed then
        (* original code: return on the first read error *)
        (mkSh (nshards sh1) (bad sh1) (next sh1) (slot sh1) (closed sh1) (loaded sh1) (errors sh1) (S (exited sh1)), p, inr RDone)
      else (sh1, p, inl LRecv)
    | None =>
      (* channel closed and drained: the range loop ends *)
      (mkSh (nshards sh) (bad sh) (next sh) (slot sh) (closed sh) (loaded sh) (errors sh) (S (exited sh)), p, inr RDone)
    end
  end.

Definition blocked (l : local) (sh : shared) : bool :=
  match l with
  | LFeed => match slot sh with Some _ => true | None => false end
  | LWait => negb (Nat.eqb (exited sh) nloaders)
  | LRecv => match slot sh with Some _ => false | None => negb (closed sh) end
  end.
Definition blocked_begin (o : op) (sh : shared) : bool := false.

Definition sysT := sys shared local pers op result.
Definition stepS : sysT -> nat -> sysT := step_at shared local pers op result begin step blocked blocked_begin.
Definition runS : sysT -> list nat -> sysT := run shared local pers op result begin step blocked blocked_begin.

End Machine.

Definition init (n : nat) (b : nat -> bool) (c : nat) : sysT :=
  mkSys (mkSh n b 0 None false [] [] 0)
        (mkThread [OFeeder] None tt [] :: repeat (mkThread [OLoader] None tt []) c).

(** a thread that can take a step *)
Definition enabled (fixed : bool) (c : nat) (y : sysT) (i : nat) : bool :=
  match nth_error (ths y) i with
  | Some t =>
    match cur t, todo t with
    | Some l, _ => negb (blocked c l (sh y))
    | None, _ :: _ => true
    | None, [] => false
    end
  | None => false
  end.
