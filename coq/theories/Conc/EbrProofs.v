From Coq Require Import List Arith Lia Bool.
From NV Require Import Conc.Ebr Conc.EbrStmts.
Import ListNotations.

Lemma updf_same : forall A (f : nat -> A) k v, updf f k v k = v.
Proof. intros. unfold updf. rewrite Nat.eqb_refl. reflexivity. Qed.

Lemma updf_other : forall A (f : nat -> A) k v x, x <> k -> updf f k v x = f x.
Proof. intros. unfold updf. destruct (Nat.eqb_spec x k); congruence. Qed.

Lemma existsb_eqb_In : forall x l, existsb (Nat.eqb x) l = true <-> In x l.
Proof.
  intros. rewrite existsb_exists. split.
  - intros [y [Hy He]]. apply Nat.eqb_eq in He. subst. assumption.
  - intros H. exists x. split; [assumption | apply Nat.eqb_refl].
Qed.

Theorem freed_absorbing : stmt_freed_absorbing.
Proof.
  unfold stmt_freed_absorbing. intros threads st e n Hn.
  destruct e; cbn [step].
  - destruct (token st t); cbn; assumption.
  - cbn; assumption.
  - destruct (token st t); [destruct (nodes st n0)|]; cbn; assumption.
  - destruct (existsb (Nat.eqb n0) (refs st t) && In_dec_thread t threads); cbn; assumption.
  - assumption.
  - destruct (nodes st n0) eqn:E; cbn; try assumption.
    rewrite updf_other; [assumption|]. intro; subst. congruence.
  - destruct (forallb (fun n0 => is_unlinked (nodes st n0)) ns && nodup_b ns) eqn:E; cbn; [|assumption].
    apply andb_true_iff in E. destruct E as [E _].
    destruct (existsb (Nat.eqb n) ns) eqn:X; [|assumption].
    apply existsb_eqb_In in X. rewrite forallb_forall in E. apply E in X.
    rewrite Hn in X. discriminate.
  - destruct (Nat.leb (S (destructed st)) (flushes st) && no_earlier_token st (S (destructed st)) threads);
      cbn; [|assumption].
    rewrite Hn. reflexivity.
Qed.

Section Inv.
Variable threads : list nat.

Definition ref_ok (nd : nat -> nstate) (k n : nat) : Prop :=
  nd n = Linked \/ nd n = Unlinked \/ exists q, nd n = Flushed q /\ k < q.

Record inv (st : state) : Prop := mkInv {
  inv_df : destructed st <= flushes st;
  inv_fl : forall n q, nodes st n = Flushed q -> destructed st < q <= flushes st;
  inv_tok : forall t k, In t threads -> token st t = Some k ->
            k <= flushes st /\ forall n, In n (refs st t) -> ref_ok (nodes st) k n;
  inv_none : forall t, token st t = None -> refs st t = [];
  inv_bad : bad_access st = false
}.

Lemma inv_init : inv init.
Proof.
  constructor; cbn; intros; try discriminate; auto.
Qed.

Lemma inv_step : forall st e, inv st -> inv (step threads st e).
Proof.
  intros st e [Hdf Hfl Htok Hnone Hbad].
  destruct e; cbn [step].
  - (* EAcquire *)
    destruct (token st t) eqn:Et; [constructor; assumption|].
    constructor; cbn; auto.
    + intros t0 k Hin. destruct (Nat.eq_dec t0 t) as [->|Hne].
      * rewrite !updf_same. intros H; inversion H; subst. split; [lia|]. intros n [].
      * rewrite !updf_other by assumption. auto.
    + intros t0. destruct (Nat.eq_dec t0 t) as [->|Hne].
      * rewrite !updf_same. auto.
      * rewrite !updf_other by assumption. auto.
  - (* ERelease *)
    constructor; cbn; auto.
    + intros t0 k Hin. destruct (Nat.eq_dec t0 t) as [->|Hne].
      * rewrite !updf_same. discriminate.
      * rewrite !updf_other by assumption. auto.
    + intros t0. destruct (Nat.eq_dec t0 t) as [->|Hne].
      * rewrite !updf_same. auto.
      * rewrite !updf_other by assumption. auto.
  - (* EReach *)
    destruct (token st t) eqn:Et; [|constructor; assumption].
    destruct (nodes st n) eqn:En; try (constructor; assumption).
    constructor; cbn; auto.
    + intros t0 k Hin. destruct (Nat.eq_dec t0 t) as [->|Hne].
      * rewrite updf_same. intros Hk. destruct (Htok t k Hin Hk) as [H1 H2].
        split; [assumption|]. intros m [<-|Hm].
        -- left. assumption.
        -- apply H2. assumption.
      * rewrite updf_other by assumption. auto.
    + intros t0. destruct (Nat.eq_dec t0 t) as [->|Hne].
      * rewrite updf_same. congruence.
      * rewrite updf_other by assumption. auto.
  - (* EAccess *)
    destruct (existsb (Nat.eqb n) (refs st t) && In_dec_thread t threads) eqn:E;
      [|constructor; assumption].
    apply andb_true_iff in E. destruct E as [E1 E2].
    apply existsb_eqb_In in E1. unfold In_dec_thread in E2. apply existsb_eqb_In in E2.
    constructor; cbn; auto.
    rewrite Hbad. cbn.
    destruct (token st t) eqn:Et.
    + destruct (Htok t n0 E2 Et) as [_ H]. specialize (H n E1).
      destruct H as [H|[H|[q [H _]]]]; rewrite H; reflexivity.
    + rewrite (Hnone t Et) in E1. destruct E1.
  - (* EInsert *) constructor; assumption.
  - (* EUnlink *)
    destruct (nodes st n) eqn:En; try (constructor; assumption).
    constructor; cbn; auto.
    + intros m q. destruct (Nat.eq_dec m n) as [->|Hne].
      * rewrite updf_same. discriminate.
      * rewrite updf_other by assumption. apply Hfl.
    + intros t k Hin Hk. destruct (Htok t k Hin Hk) as [H1 H2]. split; [assumption|].
      intros m Hm. specialize (H2 m Hm). unfold ref_ok in *; cbn.
      destruct (Nat.eq_dec m n) as [->|Hne].
      * rewrite updf_same. auto.
      * rewrite updf_other by assumption. auto.
  - (* EFlush *)
    destruct (forallb (fun n => is_unlinked (nodes st n)) ns && nodup_b ns) eqn:E;
      [|constructor; assumption].
    apply andb_true_iff in E. destruct E as [E _]. rewrite forallb_forall in E.
    constructor; cbn; auto.
    + intros n q. destruct (existsb (Nat.eqb n) ns).
      * intros H; inversion H; subst. lia.
      * intros H. apply Hfl in H. lia.
    + intros t k Hin Hk. destruct (Htok t k Hin Hk) as [H1 H2]. split; [lia|].
      intros m Hm. specialize (H2 m Hm). unfold ref_ok in *; cbn.
      destruct (existsb (Nat.eqb m) ns).
      * right. right. exists (S (flushes st)). split; [reflexivity|lia].
      * assumption.
  - (* EDestruct *)
    destruct (Nat.leb (S (destructed st)) (flushes st) && no_earlier_token st (S (destructed st)) threads) eqn:E;
      [|constructor; assumption].
    apply andb_true_iff in E. destruct E as [E1 E2]. apply Nat.leb_le in E1.
    unfold no_earlier_token in E2. rewrite forallb_forall in E2.
    constructor; cbn; auto.
    + intros n q. destruct (nodes st n) eqn:En; try discriminate.
      destruct (Nat.eqb_spec q0 (S (destructed st))); [discriminate|].
      intros H; inversion H; subst. apply Hfl in En. lia.
    + intros t k Hin Hk. destruct (Htok t k Hin Hk) as [H1 H2]. split; [assumption|].
      intros m Hm. specialize (H2 m Hm). unfold ref_ok in *; cbn.
      destruct H2 as [H|[H|[q [H Hq]]]]; rewrite H; auto.
      destruct (Nat.eqb_spec q (S (destructed st))) as [->|Hne].
      * exfalso. specialize (E2 t Hin). cbv beta in E2. rewrite Hk in E2.
        apply Nat.leb_le in E2. lia.
      * right. right. exists q. auto.
Qed.

Lemma inv_run : forall tr st, inv st -> inv (run threads st tr).
Proof.
  induction tr; intros st H; cbn; [assumption|]. apply IHtr. apply inv_step. assumption.
Qed.

End Inv.

Theorem ebr_safe : stmt_ebr_safe.
Proof.
  unfold stmt_ebr_safe. intros threads tr. cbv zeta. set (st := run threads init tr).
  destruct (inv_run threads tr init (inv_init threads)) as [Hdf Hfl Htok Hnone Hbad].
  fold st in Hdf, Hfl, Htok, Hnone, Hbad.
  repeat split; auto.
  - intros t n Hin Hn.
    destruct (token st t) eqn:Et.
    + destruct (Htok t n0 Hin Et) as [_ H]. specialize (H n Hn).
      destruct H as [H|[H|[q [H _]]]]; rewrite H; discriminate.
    + rewrite (Hnone t Et) in Hn. destruct Hn.
  - apply Hfl in H. lia.
  - apply Hfl in H. lia.
Qed.

Print Assumptions freed_absorbing.
Print Assumptions ebr_safe.
