From Coq Require Import List Arith Lia Bool.
From NV Require Import Conc.Ebr.
Import ListNotations.

(** C04 at the protocol level: for every set of threads and EVERY event sequence (events that do not
    meet their obligation are not behaviours and are ignored), no accessor ever dereferences a freed
    node, no node reachable through an accessor's references is freed, and nothing is freed twice:
    a node goes Linked -> Unlinked -> Flushed q -> Freed, never back. *)
Definition stmt_ebr_safe : Prop :=
  forall threads tr,
    let st := run threads init tr in
    bad_access st = false /\
    (forall t n, In t threads -> In n (refs st t) -> nodes st n <> Freed) /\
    (forall n q, nodes st n = Flushed q -> destructed st < q <= flushes st) /\
    destructed st <= flushes st.

(** freed is absorbing and each flush is destructed once: one more event never un-frees a node *)
Definition stmt_freed_absorbing : Prop :=
  forall threads st e n, nodes st n = Freed -> nodes (step threads st e) n = Freed.
