(** The visitor pool (buffered channel with capacity >= number of shards) never gets stuck, every
    enabled step strictly decreases [measure], and at the end the visited shards are distinct, in
    range, the errors are exactly the failing visited shards, without failing shard every shard is
    visited, and with a failing shard an error is recorded (inductive invariant + [Inv_run]);
    the small-channel regression (capacity = number of workers) deadlocks, by computation. *)
From Coq Require Import List Arith Lia Bool Sorting.Permutation.
From NV Require Import Base.Sched Conc.VisitPool Conc.VisitPoolStmts.
Import ListNotations.

Notation thr := (thread local pers op result).

(** * Generic helpers *)

Fixpoint sumN (f : thr -> nat) (l : list thr) : nat :=
  match l with [] => 0 | t :: r => f t + sumN f r end.

Lemma sumN_upd f i t t' l : nth_error l i = Some t ->
  sumN f (upd_th i t' l) + f t = sumN f l + f t'.
Proof.
  revert i. induction l as [|x r IH]; intros [|i] H; cbn in *; try discriminate.
  - inversion H; subst. lia.
  - pose proof (IH i H). lia.
Qed.

Lemma sumN_le f l : (forall t, f t <= 1) -> sumN f l <= length l.
Proof.
  intros Hf. induction l as [|x r IH]; cbn; [lia|]. pose proof (Hf x). lia.
Qed.

Lemma sumN_lt_ex f l : (forall t, f t <= 1) -> sumN f l < length l ->
  exists j t, nth_error l j = Some t /\ f t = 0.
Proof.
  intros Hf. induction l as [|x r IH]; cbn; intros H; [lia|].
  destruct (f x) as [|k] eqn:E.
  - exists 0, x. split; [reflexivity|exact E].
  - pose proof (Hf x). destruct IH as [j [t [Hj Ht]]]; [lia|].
    exists (S j), t. split; [exact Hj|exact Ht].
Qed.

Lemma sumN_full f l : (forall t, f t <= 1) -> sumN f l = length l -> forall t, In t l -> f t = 1.
Proof.
  intros Hf. induction l as [|x r IH]; cbn; intros H t Hin; [destruct Hin|].
  pose proof (Hf x). pose proof (sumN_le f r Hf).
  destruct Hin as [->|Hin]; [lia|]. apply IH; [lia|exact Hin].
Qed.

Lemma Forall_upd (P : thr -> Prop) i t' l : Forall P l -> P t' -> Forall P (upd_th i t' l).
Proof.
  intros Hl Ht. revert i. induction Hl as [|x r Hx Hr IH]; intros [|i]; cbn; constructor; auto.
Qed.

Lemma Forall_nth (P : thr -> Prop) i t l : Forall P l -> nth_error l i = Some t -> P t.
Proof. intros Hl Hn. apply nth_error_In in Hn. rewrite Forall_forall in Hl. auto. Qed.

(** * Thread shapes *)

Definition fin (t : thr) : bool := th_finished local pers op result t.
Definition finw (t : thr) : nat := if fin t then 1 else 0.

Lemma finw_le t : finw t <= 1.
Proof. unfold finw. destruct (fin t); lia. Qed.

(** the feeder is: not started / in the push loop / in wg.Wait / finished *)
Definition feeder_ok (t : thr) : Prop :=
  (cur t = None /\ todo t = [OFeeder]) \/ (cur t = Some LFeed /\ todo t = []) \/
  (cur t = Some LWait /\ todo t = []) \/ (cur t = None /\ todo t = []).

(** a worker is: not started / receiving / finished *)
Definition worker_ok (t : thr) : Prop :=
  (cur t = None /\ todo t = [OWorker]) \/ (cur t = Some LRecv /\ todo t = []) \/
  (cur t = None /\ todo t = []).

(** the feeder has closed the channel *)
Definition fclosed (t : thr) : bool :=
  match cur t, todo t with
  | Some LWait, _ => true
  | None, [] => true
  | _, _ => false
  end.

(** * The invariant *)

Record InvR (n k : nat) (b : nat -> bool) (c : nat) (s : shared) (f : thr) (ls : list thr) : Prop := {
  i_len : length ls = c;
  i_feeder : feeder_ok f;
  i_workers : Forall worker_ok ls;
  i_n : nshards s = n;
  i_k : cap s = k;
  i_b : bad s = b;
  i_next : next s <= n;
  (* shards are pushed in order and taken in order (FIFO channel, atomic take) *)
  i_vis : visited s ++ queue s = seq 0 (next s);
  i_errors : errors s = filter b (visited s);
  i_closed : closed s = fclosed f;
  i_closed_next : closed s = true -> next s = n;
  i_exited : exited s = sumN finw ls;
  (* every failure accounts for at most one exit; any other exit saw the channel closed and drained *)
  i_exit_drained : length (errors s) < exited s -> closed s = true /\ queue s = [];
  i_feeder_done : fin f = true -> exited s = c
}.

Definition Inv (n k : nat) (b : nat -> bool) (c : nat) (y : sysT) : Prop :=
  match ths y with
  | f :: ls => InvR n k b c (sh y) f ls
  | [] => False
  end.

Lemma sumN_repeat_nf c : sumN finw (repeat (mkThread [OWorker] None tt []) c) = 0.
Proof. induction c as [|c IH]; cbn; [reflexivity|exact IH]. Qed.

Lemma Inv_init n k b c : Inv n k b c (init n k b c).
Proof.
  unfold Inv, init. cbn [ths sh]. constructor; cbn.
  - apply repeat_length.
  - left. auto.
  - apply Forall_forall. intros t Ht. apply repeat_spec in Ht. subst t. left. auto.
  - reflexivity.
  - reflexivity.
  - reflexivity.
  - lia.
  - reflexivity.
  - reflexivity.
  - reflexivity.
  - discriminate.
  - symmetry. apply sumN_repeat_nf.
  - lia.
  - discriminate.
Qed.

Ltac tsimp :=
  cbn [sh ths cur todo pers_of done finish_seg nshards cap bad next queue closed visited errors exited
       upd begin step blocked blocked_begin fclosed fin th_finished negb andb] in *.

(** one step of the feeder, as a function of its shape *)
Lemma step_feeder c s (f : thr) ls :
  stepS c (mkSys s (f :: ls)) 0 =
  match cur f with
  | Some l =>
    if blocked c l s then mkSys s (f :: ls)
    else let '(s', p, r) := step 0 l (pers_of f) s in mkSys s' (finish_seg _ _ _ _ f (todo f) p r :: ls)
  | None =>
    match todo f with
    | [] => mkSys s (f :: ls)
    | o :: rest => let '(s', p, r) := begin 0 o (pers_of f) s in mkSys s' (finish_seg _ _ _ _ f rest p r :: ls)
    end
  end.
Proof.
  unfold stepS, step_at. cbn [ths sh nth_error]. destruct (cur f) as [l|].
  - destruct (blocked c l s); [reflexivity|]. destruct (step 0 l (pers_of f) s) as [[s' p] r]. reflexivity.
  - destruct (todo f) as [|o rest]; [reflexivity|]. cbn [blocked_begin].
    destruct (begin 0 o (pers_of f) s) as [[s' p] r]. reflexivity.
Qed.

Lemma step_worker c s (f : thr) ls j :
  stepS c (mkSys s (f :: ls)) (S j) =
  match nth_error ls j with
  | None => mkSys s (f :: ls)
  | Some t =>
    match cur t with
    | Some l =>
      if blocked c l s then mkSys s (f :: ls)
      else let '(s', p, r) := step (S j) l (pers_of t) s in
           mkSys s' (f :: upd_th j (finish_seg _ _ _ _ t (todo t) p r) ls)
    | None =>
      match todo t with
      | [] => mkSys s (f :: ls)
      | o :: rest => let '(s', p, r) := begin (S j) o (pers_of t) s in
                     mkSys s' (f :: upd_th j (finish_seg _ _ _ _ t rest p r) ls)
      end
    end
  end.
Proof.
  unfold stepS, step_at. cbn [ths sh nth_error]. destruct (nth_error ls j) as [t|]; [|reflexivity].
  destruct (cur t) as [l|].
  - destruct (blocked c l s); [reflexivity|]. destruct (step (S j) l (pers_of t) s) as [[s' p] r]. reflexivity.
  - destruct (todo t) as [|o rest]; [reflexivity|]. cbn [blocked_begin].
    destruct (begin (S j) o (pers_of t) s) as [[s' p] r]. reflexivity.
Qed.

Ltac shape :=
  first [ left; split; reflexivity | right; left; split; reflexivity
        | right; right; left; split; reflexivity | right; right; right; split; reflexivity
        | right; right; split; reflexivity ].
Ltac easygoal := try solve [ shape | discriminate | congruence | lia | assumption ].
Ltac fw H :=
  repeat match type of H with
  | context [finw (mkThread ?a ?b ?c ?d)] =>
    let v := eval cbv in (finw (mkThread a b c d)) in change (finw (mkThread a b c d)) with v in H
  end.
Ltac mkinv := unfold Inv; tsimp; constructor; tsimp; auto; easygoal.

Lemma Inv_step n k b c y i : Inv n k b c y -> Inv n k b c (stepS c y i).
Proof.
  destruct y as [s l]. unfold Inv at 1. cbn [ths sh]. destruct l as [|f ls]; [intros []|]. intros H.
  destruct i as [|j].
  - (* the feeder *)
    rewrite step_feeder. destruct H. destruct f as [td cu p d]. tsimp.
    destruct i_feeder0 as [[Hc Ht]|[[Hc Ht]|[[Hc Ht]|[Hc Ht]]]]; tsimp; subst cu td.
    + (* start *)
      mkinv.
    + (* push loop *)
      tsimp. destruct (Nat.ltb_spec (next s) (nshards s)) as [Hlt|Hge]; tsimp.
      * destruct (cap s <=? length (queue s)); tsimp; [mkinv|].
        mkinv.
        -- rewrite app_assoc, i_vis0, seq_S. reflexivity.
        -- intros Hex. destruct (i_exit_drained0 Hex) as [Hcl _]. congruence.
      * mkinv.
        intros Hex. destruct (i_exit_drained0 Hex) as [Hcl _]. congruence.
    + (* wg.Wait *)
      tsimp. destruct (Nat.eqb_spec (exited s) c) as [He|Hne]; tsimp; mkinv.
    + (* finished *)
      mkinv.
  - (* a worker *)
    rewrite step_worker. destruct (nth_error ls j) as [t|] eqn:Hn; [|exact H].
    destruct H. pose proof (Forall_nth _ _ _ _ i_workers0 Hn) as Hok.
    destruct t as [td cu p d]. tsimp.
    destruct Hok as [[Hc Ht]|[[Hc Ht]|[Hc Ht]]]; tsimp; subst cu td.
    + (* start *)
      pose proof (sumN_upd finw j _ (mkThread [] (Some LRecv) p d) ls Hn) as Hs.
      fw Hs.
      mkinv.
      * rewrite length_upd. exact i_len0.
      * apply Forall_upd; [exact i_workers0|]. shape.
    + (* receive *)
      tsimp. destruct (queue s) as [|v q] eqn:Es.
      * (* empty *)
        destruct (closed s) eqn:Ecl; tsimp.
        2:{ mkinv; rewrite Es; auto. }
        pose proof (sumN_upd finw j _ (mkThread [] None p (d ++ [RDone])) ls Hn) as Hs.
        fw Hs.
        pose proof (sumN_le finw (upd_th j (mkThread [] None p (d ++ [RDone])) ls) finw_le) as Hle.
        rewrite length_upd in Hle.
        mkinv.
        -- rewrite length_upd. exact i_len0.
        -- apply Forall_upd; [exact i_workers0|]. shape.
        -- intros Hf. specialize (i_feeder_done0 Hf). lia.
      * (* take v *)
        assert (Hvis : (visited s ++ [v]) ++ q = seq 0 (next s)).
        { rewrite <- app_assoc. exact i_vis0. }
        assert (Hnd : forall m, length (errors s) < m -> m <= exited s -> False).
        { intros m H1 H2. destruct i_exit_drained0 as [_ Hq]; [lia|discriminate Hq]. }
        destruct (bad s v) eqn:Eb; tsimp.
        -- (* the callback fails: the worker returns *)
           pose proof (sumN_upd finw j _ (mkThread [] None p (d ++ [RDone])) ls Hn) as Hs.
           fw Hs.
           pose proof (sumN_le finw (upd_th j (mkThread [] None p (d ++ [RDone])) ls) finw_le) as Hle.
           rewrite length_upd in Hle.
           mkinv.
           ++ rewrite length_upd. exact i_len0.
           ++ apply Forall_upd; [exact i_workers0|]. shape.
           ++ rewrite filter_app. cbn [filter]. rewrite <- i_errors0, <- i_b0, Eb. reflexivity.
           ++ rewrite app_length. cbn [length]. intros Hex. exfalso. apply (Hnd (exited s)); lia.
           ++ intros Hf. specialize (i_feeder_done0 Hf). lia.
        -- pose proof (sumN_upd finw j _ (mkThread [] (Some LRecv) p d) ls Hn) as Hs.
           fw Hs.
           mkinv.
           ++ rewrite length_upd. exact i_len0.
           ++ apply Forall_upd; [exact i_workers0|]. shape.
           ++ rewrite filter_app. cbn [filter]. rewrite <- i_errors0, <- i_b0, Eb, app_nil_r. reflexivity.
           ++ intros Hex. exfalso. apply (Hnd (exited s)); lia.
    + (* finished *)
      mkinv.
Qed.

Lemma Inv_reach n k b c sched : Inv n k b c (runS c (init n k b c) sched).
Proof.
  unfold runS. apply (Inv_run _ _ _ _ _ _ _ _ _ (Inv n k b c)).
  - intros y i. apply Inv_step.
  - apply Inv_init.
Qed.

(** * No deadlock *)

Lemma feeder_enabled c s (f : thr) ls :
  enabled c (mkSys s (f :: ls)) 0 =
  match cur f, todo f with
  | Some l, _ => negb (blocked c l s)
  | None, _ :: _ => true
  | None, [] => false
  end.
Proof. reflexivity. Qed.

Lemma worker_enabled_eq c s (f : thr) ls j :
  enabled c (mkSys s (f :: ls)) (S j) =
  match nth_error ls j with
  | Some t =>
    match cur t, todo t with
    | Some l, _ => negb (blocked c l s)
    | None, _ :: _ => true
    | None, [] => false
    end
  | None => false
  end.
Proof. reflexivity. Qed.

(** a worker that has not returned can run as soon as the channel is closed *)
Lemma worker_enabled c s (f : thr) ls j t :
  nth_error ls j = Some t -> worker_ok t -> finw t = 0 -> closed s = true ->
  enabled c (mkSys s (f :: ls)) (S j) = true.
Proof.
  intros Hn Hok Hf Hs. rewrite worker_enabled_eq, Hn.
  destruct t as [td cu p d]. tsimp.
  destruct Hok as [[Hc Ht]|[[Hc Ht]|[Hc Ht]]]; tsimp; subst cu td; tsimp.
  - reflexivity.
  - destruct (queue s); [|reflexivity]. rewrite Hs. reflexivity.
  - discriminate Hf.
Qed.

Lemma quiescent_cons s (f : thr) ls :
  quiescentV (mkSys s (f :: ls)) = fin f && forallb fin ls.
Proof. reflexivity. Qed.

Lemma queue_le_next s : visited s ++ queue s = seq 0 (next s) -> length (queue s) <= next s.
Proof.
  intros H. apply (f_equal (@length nat)) in H. rewrite app_length, seq_length in H. lia.
Qed.

Theorem visit_no_deadlock : stmt_visit_no_deadlock.
Proof.
  intros n k b c sched Hc Hnk. cbv zeta.
  generalize (Inv_reach n k b c sched). generalize (runS c (init n k b c) sched) as y.
  intros [s l]. unfold Inv. cbn [ths sh]. destruct l as [|f ls]; [intros []|]. intros H. destruct H.
  assert (Hex : sumN finw ls < length ls -> closed s = true ->
                exists i, enabled c (mkSys s (f :: ls)) i = true).
  { intros Hlt Hs. destruct (sumN_lt_ex finw ls finw_le Hlt) as [j [t [Hn Ht]]].
    exists (S j). apply (worker_enabled c s f ls j t); auto.
    apply (Forall_nth _ _ _ _ i_workers0 Hn). }
  pose proof (queue_le_next s i_vis0) as Hq.
  destruct f as [td cu p d]. tsimp.
  destruct i_feeder0 as [[Hcu Ht]|[[Hcu Ht]|[[Hcu Ht]|[Hcu Ht]]]]; tsimp; subst cu td; tsimp.
  - right. exists 0. reflexivity.
  - (* the feeder is never blocked: length queue <= next < n <= cap *)
    right. exists 0. rewrite feeder_enabled. tsimp.
    destruct (Nat.ltb_spec (next s) (nshards s)) as [Hlt|Hge]; tsimp; [|reflexivity].
    destruct (Nat.leb_spec (cap s) (length (queue s))) as [Hle|Hgt]; [lia|reflexivity].
  - right. destruct (Nat.eq_dec (exited s) c) as [He|Hne].
    + exists 0. rewrite feeder_enabled. tsimp. rewrite He, Nat.eqb_refl. reflexivity.
    + apply Hex; [|exact i_closed0].
      pose proof (sumN_le finw ls finw_le). lia.
  - left. rewrite quiescent_cons. tsimp. apply forallb_forall. intros t Ht.
    assert (E : finw t = 1).
    { apply (sumN_full finw ls finw_le); [|exact Ht]. specialize (i_feeder_done0 eq_refl). lia. }
    unfold finw in E. destruct (fin t); [reflexivity|discriminate].
Qed.

Print Assumptions visit_no_deadlock.

(** * Completeness *)

Lemma NoDup_app_l (A : Type) (l1 l2 : list A) : NoDup (l1 ++ l2) -> NoDup l1.
Proof.
  induction l1 as [|a r IH]; cbn; intros H; [constructor|].
  inversion H as [|x l Hni Hnd]; subst. constructor.
  - intros Hin. apply Hni. apply in_or_app. left. exact Hin.
  - apply IH. exact Hnd.
Qed.

Lemma filter_nil_all (b : nat -> bool) (l : list nat) :
  (forall s, In s l -> b s = false) -> filter b l = [].
Proof.
  induction l as [|a r IH]; cbn; intros H; [reflexivity|].
  rewrite (H a (or_introl eq_refl)). apply IH. intros s Hs. apply H. right. exact Hs.
Qed.

Theorem visit_complete : stmt_visit_complete.
Proof.
  intros n k b c sched Hc Hnk. cbv zeta.
  generalize (Inv_reach n k b c sched). generalize (runS c (init n k b c) sched) as y.
  intros [s l]. unfold Inv. cbn [ths sh]. destruct l as [|f ls]; [intros []|]. intros H Hq. destruct H.
  rewrite quiescent_cons in Hq. apply andb_true_iff in Hq. destruct Hq as [Hf Hl].
  specialize (i_feeder_done0 Hf).
  assert (Hincl : incl (visited s) (seq 0 n)).
  { intros x Hx. assert (Hx' : In x (seq 0 (next s))).
    { rewrite <- i_vis0. apply in_or_app. left. exact Hx. }
    apply in_seq in Hx'. apply in_seq. lia. }
  (* when no error was recorded, some worker saw the channel closed and drained *)
  assert (Hall : errors s = [] -> visited s = seq 0 n).
  { intros He. destruct i_exit_drained0 as [Hcl Hqe]; [rewrite He; cbn [length]; lia|].
    rewrite Hqe, app_nil_r in i_vis0. rewrite i_vis0, (i_closed_next0 Hcl). reflexivity. }
  split; [|split; [|split; [|split]]].
  - apply (NoDup_app_l _ _ (queue s)). rewrite i_vis0. apply seq_NoDup.
  - exact Hincl.
  - exact i_errors0.
  - intros Hgood. rewrite Hall; [apply Permutation_refl|].
    rewrite i_errors0. apply filter_nil_all. intros x Hx. apply Hgood.
    apply Hincl in Hx. apply in_seq in Hx. lia.
  - intros [x [Hx Hb]] He. specialize (Hall He).
    rewrite Hall in i_errors0. rewrite He in i_errors0.
    assert (Hin : In x (filter b (seq 0 n))).
    { apply filter_In. split; [apply in_seq; lia|exact Hb]. }
    rewrite <- i_errors0 in Hin. destruct Hin.
Qed.

Print Assumptions visit_complete.

(** * The measure *)

(** per-thread weights of [measure]: not started 3 + 1, parked 3, finished 0 + 1 *)
Definition w (t : thr) : nat :=
  match cur t, todo t with None, [] => 1 | None, _ :: _ => 4 | Some _, _ => 3 end.

Definition shw (s : shared) : nat :=
  3 * (nshards s - next s) + 2 * length (queue s) + (if closed s then 0 else 1).

Lemma measure_eq y : measure y = shw (sh y) + sumN w (ths y).
Proof.
  unfold measure, shw. cbv zeta. rewrite <- !Nat.add_assoc. do 3 f_equal.
  induction (ths y) as [|t r IH]; [reflexivity|].
  cbn [filter sumN]. unfold w at 1. destruct (cur t); [|destruct (todo t)]; cbn [length]; lia.
Qed.

(** initially 3n + 4c + 5 *)
Lemma measure_init n k b c : measure (init n k b c) = 3 * n + 4 * c + 5.
Proof.
  rewrite measure_eq. unfold init, shw. cbn [sh ths nshards next queue closed sumN length].
  assert (E : sumN w (repeat (mkThread [OWorker] None tt []) c) = 4 * c).
  { induction c as [|c IH]; [reflexivity|]. cbn [repeat sumN]. rewrite IH. cbn [w cur todo]. lia. }
  rewrite E. cbn [w cur todo]. lia.
Qed.

Ltac wsimp := cbn [sumN w cur todo] in *.

Lemma measure_step n k b c y i : Inv n k b c y ->
  enabled c y i = true -> measure (stepS c y i) < measure y.
Proof.
  rewrite !measure_eq.
  destruct y as [s l]. unfold Inv. cbn [ths sh]. destruct l as [|f ls]; [intros []|]. intros H.
  destruct i as [|j].
  - (* the feeder *)
    rewrite feeder_enabled, step_feeder. destruct H. destruct f as [td cu p d]. tsimp.
    destruct i_feeder0 as [[Hc Ht]|[[Hc Ht]|[[Hc Ht]|[Hc Ht]]]]; tsimp; subst cu td; tsimp; wsimp.
    + lia.
    + unfold shw. destruct (Nat.ltb_spec (next s) (nshards s)) as [Hlt|Hge]; tsimp.
      * destruct (cap s <=? length (queue s)); tsimp; [discriminate|].
        wsimp. rewrite app_length. cbn [length]. lia.
      * wsimp. rewrite i_closed0. lia.
    + destruct (Nat.eqb (exited s) c); tsimp; wsimp.
      * lia.
      * discriminate.
    + discriminate.
  - (* a worker *)
    rewrite worker_enabled_eq, step_worker.
    destruct (nth_error ls j) as [t|] eqn:Hn; [|discriminate].
    destruct H. pose proof (Forall_nth _ _ _ _ i_workers0 Hn) as Hok.
    destruct t as [td cu p d]. tsimp.
    destruct Hok as [[Hc Ht]|[[Hc Ht]|[Hc Ht]]]; tsimp; subst cu td; tsimp.
    + pose proof (sumN_upd w j _ (mkThread [] (Some LRecv) p d) ls Hn) as Hs.
      wsimp. lia.
    + destruct (queue s) as [|v q] eqn:Es; tsimp.
      * destruct (closed s) eqn:Ecl; tsimp; [|discriminate].
        pose proof (sumN_upd w j _ (mkThread [] None p (d ++ [RDone])) ls Hn) as Hs.
        unfold shw. tsimp. rewrite Es, Ecl. wsimp. lia.
      * destruct (bad s v); tsimp.
        -- pose proof (sumN_upd w j _ (mkThread [] None p (d ++ [RDone])) ls Hn) as Hs.
           unfold shw. tsimp. rewrite Es. cbn [length]. wsimp. lia.
        -- pose proof (sumN_upd w j _ (mkThread [] (Some LRecv) p d) ls Hn) as Hs.
           unfold shw. tsimp. rewrite Es. cbn [length]. wsimp. lia.
    + discriminate.
Qed.

Theorem visit_measure : stmt_visit_measure.
Proof.
  intros n k b c sched i Hc Hnk. cbv zeta. intros He.
  apply (measure_step n k b c _ i (Inv_reach n k b c sched)). exact He.
Qed.

Print Assumptions visit_measure.

(** * The small-channel regression: capacity 2 = number of workers, six failing shards.  The feeder
    fills the channel (shards 0, 1), each worker takes one shard, fails and returns; the feeder pushes
    shards 2 and 3 and then sits in the push loop for ever: the channel is full and no worker is left. *)
Theorem visit_small_channel_stuck : stmt_visit_small_channel_stuck.
Proof.
  exists [0;0;0;1;1;2;2;0;0]%nat. vm_compute. split; reflexivity.
Qed.

Print Assumptions visit_small_channel_stuck.
