From Coq Require Import List Arith Lia Bool Sorting.Permutation.
From NV Require Import Base.Sched Conc.LoaderPool.
Import ListNotations.

Definition quiescentL (y : sysT) : bool := quiescent shared local pers op result y.

(** C11 "never stuck": with the repaired loaders, for every number of shards, every set of failing
    shards, every number c >= 1 of loader goroutines and every schedule, a state that is not finished
    always has an enabled thread (no deadlock) ... *)
Definition stmt_loader_no_deadlock : Prop :=
  forall n b c sched, (1 <= c)%nat ->
    let y := runS true c (init n b c) sched in
    quiescentL y = true \/ exists i, enabled true c y i = true.

(** ... every enabled step decreases a measure bounded by 3n + 2c + 3, so every fair run terminates ... *)
Definition measure (y : sysT) : nat :=
  let s := sh y in
  3 * (nshards s - next s) + (match slot s with Some _ => 2 | None => 0 end)
  + (if closed s then 0 else 1)
  + 2 * length (filter (fun t => match cur t, todo t with None, [] => false | _, _ => true end) (ths y)).

Definition stmt_loader_measure : Prop :=
  forall n b c sched i, (1 <= c)%nat ->
    let y := runS true c (init n b c) sched in
    enabled true c y i = true -> (measure (stepS true c y i) < measure y)%nat.

(** ... and at the end every shard has been read exactly once and exactly the failing ones are
    recorded as errors *)
Definition stmt_loader_complete : Prop :=
  forall n b c sched, (1 <= c)%nat ->
    let y := runS true c (init n b c) sched in
    quiescentL y = true ->
    Permutation (loaded (sh y)) (seq 0 n) /\
    Permutation (errors (sh y)) (filter b (seq 0 n)).
