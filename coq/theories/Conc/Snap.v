(** Interleaving model of snapshot handles and the in-order collector:
    Snapshot.Open / Snapshot.Close (nitro.go:566-588), GC / collectDead (nitro.go:694-722).
    Atomic segments end at the verif yield points:
      Open : [load, zero test] -P5- [CAS; on failure load+test again]
      Close: [add -1, zero test] -P6- [move open->retired; try-lock GC; SeekFirst]
      collectDead: -P7- one loop iteration each; -P8- [flag reset]
    A snapshot is its number 1..n. *)
From Coq Require Import List Arith ZArith Lia Bool.
From NV Require Import Base.Sched.
Import ListNotations.
Open Scope Z_scope.

Record shared := mkSh {
  nsnaps : nat;
  ref : nat -> Z;
  in_open : nat -> bool;        (* member of Nitro.snapshots *)
  in_ret : nat -> bool;         (* member of Nitro.gcsnapshots *)
  retired : nat -> nat;         (* ghost: how many times it was moved to the retired set *)
  zeroed : nat -> bool;         (* ghost: refcount reached zero in some Close *)
  gcflag : bool;                (* isGCRunning *)
  lastgc : nat;                 (* lastGCSn *)
  sent : list nat;              (* garbage lists handed to the workers, in order *)
  late_open : bool              (* ghost: an Open succeeded on a snapshot whose count had reached zero *)
}.

Inductive local :=
| LOpen (s : nat) (rc : Z)      (* between the zero test and the CAS *)
| LCloseDec (s : nat)           (* decrement hit zero, before moving between the sets *)
| LGC (c : nat)                 (* collectDead standing on retired snapshot c *)
| LGCEnd.                       (* collectDead returned, flag not yet reset *)

Inductive op := OOpen (s : nat) | OClose (s : nat) | OGC.
Inductive result := ROpen (b : bool) | RUnit | RMisuse.

(** per-thread ghost: number of handles held on each snapshot *)
Definition pers := nat -> Z.

Definition updf {A} (f : nat -> A) (k : nat) (v : A) : nat -> A := fun x => if Nat.eqb x k then v else f x.

Definition mark_late (sh : shared) (s : nat) : shared :=
  mkSh (nsnaps sh) (ref sh) (in_open sh) (in_ret sh) (retired sh) (zeroed sh) (gcflag sh) (lastgc sh) (sent sh)
       (late_open sh || zeroed sh s).

Definition set_ref (sh : shared) (s : nat) (v : Z) : shared :=
  mkSh (nsnaps sh) (updf (ref sh) s v) (in_open sh) (in_ret sh) (retired sh) (zeroed sh) (gcflag sh) (lastgc sh) (sent sh) (late_open sh).

(** smallest retired snapshot number greater than [lo] *)
Definition first_ret_from (sh : shared) (lo : nat) : option nat :=
  find (fun s => in_ret sh s) (seq (S lo) (nsnaps sh - lo)).

(** GC(): try-lock, then SeekFirst of collectDead *)
Definition gc_enter (sh : shared) : shared * (local + result) :=
  if gcflag sh then (sh, inr RUnit)
  else
    let sh' := mkSh (nsnaps sh) (ref sh) (in_open sh) (in_ret sh) (retired sh) (zeroed sh) true (lastgc sh) (sent sh) (late_open sh) in
    match first_ret_from sh' 0 with
    | Some c => (sh', inl (LGC c))
    | None => (sh', inl LGCEnd)
    end.

(** [fixed = true]: Open re-validates with a CAS (repaired code); [false]: the original load;add *)
Section Machine.
Variable fixed : bool.

Definition begin (tid : nat) (o : op) (p : pers) (sh : shared) : shared * pers * (local + result) :=
  match o with
  | OOpen s =>
    let rc := ref sh s in
    if rc =? 0 then (sh, p, inr (ROpen false)) else (sh, p, inl (LOpen s rc))
  | OClose s =>
    if p s <=? 0 then (sh, p, inr RMisuse)         (* closing a handle one does not hold: excluded *)
    else
      let nr := ref sh s - 1 in
      let sh1 := set_ref sh s nr in
      let p' := updf p s (p s - 1) in
      if nr =? 0 then
        (mkSh (nsnaps sh1) (ref sh1) (in_open sh1) (in_ret sh1) (retired sh1) (updf (zeroed sh1) s true)
              (gcflag sh1) (lastgc sh1) (sent sh1) (late_open sh1), p', inl (LCloseDec s))
      else (sh1, p', inr RUnit)
  | OGC => let '(sh', r) := gc_enter sh in (sh', p, r)
  end.

Definition step (tid : nat) (l : local) (p : pers) (sh : shared) : shared * pers * (local + result) :=
  match l with
  | LOpen s rc =>
    if fixed then
      if ref sh s =? rc then (set_ref (mark_late sh s) s (rc + 1), updf p s (p s + 1), inr (ROpen true))
      else
        let rc' := ref sh s in
        if rc' =? 0 then (sh, p, inr (ROpen false)) else (sh, p, inl (LOpen s rc'))
    else (set_ref (mark_late sh s) s (ref sh s + 1), updf p s (p s + 1), inr (ROpen true))
  | LCloseDec s =>
    let sh1 := mkSh (nsnaps sh) (ref sh) (updf (in_open sh) s false) (updf (in_ret sh) s true)
                    (updf (retired sh) s (S (retired sh s))) (zeroed sh) (gcflag sh) (lastgc sh) (sent sh) (late_open sh) in
    let '(sh2, r) := gc_enter sh1 in (sh2, p, r)
  | LGC c =>
    if Nat.eqb c (S (lastgc sh)) then
      let sh1 := mkSh (nsnaps sh) (ref sh) (in_open sh) (updf (in_ret sh) c false) (retired sh) (zeroed sh)
                      (gcflag sh) c (sent sh ++ [c]) (late_open sh) in
      match first_ret_from sh1 c with
      | Some c' => (sh1, p, inl (LGC c'))
      | None => (sh1, p, inl LGCEnd)
      end
    else (sh, p, inl LGCEnd)
  | LGCEnd =>
    (mkSh (nsnaps sh) (ref sh) (in_open sh) (in_ret sh) (retired sh) (zeroed sh) false (lastgc sh) (sent sh) (late_open sh), p, inr RUnit)
  end.

Definition blocked (l : local) (sh : shared) : bool := false.
Definition blocked_begin (o : op) (sh : shared) : bool := false.

Definition sysT := sys shared local pers op result.

Definition stepS : sysT -> nat -> sysT := step_at shared local pers op result begin step blocked blocked_begin.
Definition runS : sysT -> list nat -> sysT := run shared local pers op result begin step blocked blocked_begin.

End Machine.

(** initial state: n snapshots, all open, each with one reference held by thread [owner s] *)
Definition init_sh (n : nat) : shared :=
  mkSh n (fun s => if (1 <=? s)%nat && (s <=? n)%nat then 1 else 0)
       (fun s => (1 <=? s)%nat && (s <=? n)%nat) (fun _ => false) (fun _ => 0%nat) (fun _ => false) false 0 [] false.

Definition init_pers (n : nat) (owner : nat -> nat) (tid : nat) : pers :=
  fun s => if (1 <=? s)%nat && (s <=? n)%nat && Nat.eqb (owner s) tid then 1 else 0.

Definition init (n : nat) (owner : nat -> nat) (progs : list (list op)) : sysT :=
  mkSys (init_sh n)
        (map (fun ip => mkThread (snd ip) None (init_pers n owner (fst ip)) [])
             (combine (seq 0 (length progs)) progs)).
