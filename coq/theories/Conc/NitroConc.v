(** Concurrent writers between two snapshots (C03): Put / Delete / GetNode by several writers, one per
    goroutine, over the version store of Mvcc/Store.v.  The skiplist is an atomic ordered-set object
    here (that layering is C13's statement); the steps are the ones between which the Go code can be
    interleaved at this level:
      Put    : [path search, existCmp]  -P36-  [level-0 publish CAS; on failure search again]
      Delete : [GetNode]  -P11-  [DeleteNode: same epoch -> skiplist delete, else deadSn CAS + list append]
      GetNode: one step.
    A ghost log records every operation at its linearization step. *)
From NV Require Import Base.Bytes Base.Sched Mvcc.Store.
From Coq Require Import List ZArith Bool.
Import ListNotations.
Open Scope N_scope.

Inductive op := OPut (bs : list N) | ODelete (bs : list N) | OGet (bs : list N).
Inductive result := RNode (o : option N) | RDel (o : option N) (b : bool).

Record shared := mkSh {
  store : list ver;
  next_vid : N;
  epoch : N;                            (* currSn: constant between two snapshots *)
  lin : list (nat * op * result);       (* ghost: (writer, operation, result) in linearization order *)
  pending : list (nat * list N * N)     (* ghost: deleters parked between GetNode and DeleteNode: (writer, key, node) *)
}.

(** per-writer state (the Writer struct): garbage list and item count delta *)
Record pers := mkPers { w_gc : list N; w_count : Z }.

Inductive local :=
| LPub (bs : list N) (pred succ : option N)     (* before the publish CAS *)
| LDel (bs : list N) (n : N).                   (* between GetNode and DeleteNode *)

Section Machine.
Variable kcmp : list N -> list N -> comparison.

Definition optN_eq (a b : option N) : bool :=
  match a, b with Some x, Some y => x =? y | None, None => true | _, _ => false end.

(** is (pred, succ) still an adjacent pair of the level-0 list?  None = head / tail sentinel *)
Fixpoint adjacent (pred succ : option N) (s : list ver) (prev : option N) : bool :=
  match s with
  | [] => optN_eq prev pred && match succ with None => true | Some _ => false end
  | v :: r =>
    (optN_eq prev pred && match succ with Some x => x =? vid v | None => false end)
    || adjacent pred succ r (Some (vid v))
  end.

(** a delete that wins against node n also decides the outcome of every deleter parked on n: they are
    linearized as failures right behind it *)
Definition losers (tid : nat) (n : N) (pd : list (nat * list N * N)) : list (nat * op * result) :=
  map (fun e => (fst (fst e), ODelete (snd (fst e)), RDel (Some n) false))
      (filter (fun e => (snd e =? n) && negb (Nat.eqb (fst (fst e)) tid)) pd).
Definition drop_node (n : N) (pd : list (nat * list N * N)) : list (nat * list N * N) :=
  filter (fun e => negb (snd e =? n)) pd.
Definition is_pending (tid : nat) (pd : list (nat * list N * N)) : bool :=
  existsb (fun e => Nat.eqb (fst (fst e)) tid) pd.
Definition drop_tid (tid : nat) (pd : list (nat * list N * N)) : list (nat * list N * N) :=
  filter (fun e => negb (Nat.eqb (fst (fst e)) tid)) pd.

Fixpoint insert_after (pred : option N) (x : ver) (s : list ver) : list ver :=
  match pred with
  | None => x :: s
  | Some p => match s with
              | [] => [x]
              | v :: r => if vid v =? p then v :: x :: r else v :: insert_after pred x r
              end
  end.

Definition search_put (tid : nat) (bs : list N) (p : pers) (sh : shared) : shared * pers * (local + result) :=
  let '(pred, succ, found) := find_ins kcmp bs (epoch sh) (store sh) in
  if found || exist_eq kcmp bs pred then
    (mkSh (store sh) (next_vid sh) (epoch sh) (lin sh ++ [(tid, OPut bs, RNode None)]) (pending sh), p, inr (RNode None))
  else (sh, p, inl (LPub bs (option_map vid pred) (option_map vid succ))).

Definition getnode (bs : list N) (sh : shared) : option N :=
  let '(pred, succ, found) := find_ins kcmp bs (epoch sh) (store sh) in
  if found then option_map vid succ
  else if exist_eq kcmp bs pred then option_map vid pred else None.

Definition begin (tid : nat) (o : op) (p : pers) (sh : shared) : shared * pers * (local + result) :=
  match o with
  | OPut bs => search_put tid bs p sh
  | OGet bs =>
    let r := RNode (getnode bs sh) in
    (mkSh (store sh) (next_vid sh) (epoch sh) (lin sh ++ [(tid, o, r)]) (pending sh), p, inr r)
  | ODelete bs =>
    match getnode bs sh with
    | Some n =>
      (mkSh (store sh) (next_vid sh) (epoch sh) (lin sh) (pending sh ++ [(tid, bs, n)]), p, inl (LDel bs n))
    | None =>
      (mkSh (store sh) (next_vid sh) (epoch sh) (lin sh ++ [(tid, o, RDel None false)]) (pending sh), p, inr (RDel None false))
    end
  end.

Definition step (tid : nat) (l : local) (p : pers) (sh : shared) : shared * pers * (local + result) :=
  match l with
  | LPub bs pred succ =>
    if adjacent pred succ (store sh) None then
      let x := mkVer bs (epoch sh) 0 (next_vid sh) in
      let r := RNode (Some (next_vid sh)) in
      (mkSh (insert_after pred x (store sh)) (next_vid sh + 1) (epoch sh) (lin sh ++ [(tid, OPut bs, r)]) (pending sh),
       mkPers (w_gc p) (w_count p + 1), inr r)
    else search_put tid bs p sh
  | LDel bs n =>
    let fail_entry := if is_pending tid (pending sh) then [(tid, ODelete bs, RDel (Some n) false)] else [] in
    let failed := (mkSh (store sh) (next_vid sh) (epoch sh) (lin sh ++ fail_entry) (drop_tid tid (pending sh)),
                   p, inr (RDel (Some n) false)) in
    match find_vid n (store sh) with
    | None => failed
    | Some v =>
      if vborn v =? epoch sh then
        (mkSh (remove_vid n (store sh)) (next_vid sh) (epoch sh)
              (lin sh ++ (tid, ODelete bs, RDel (Some n) true) :: losers tid n (pending sh))
              (drop_node n (pending sh)),
         mkPers (w_gc p) (w_count p - 1), inr (RDel (Some n) true))
      else if vdead v =? 0 then
        (mkSh (set_dead n (epoch sh) (store sh)) (next_vid sh) (epoch sh)
              (lin sh ++ (tid, ODelete bs, RDel (Some n) true) :: losers tid n (pending sh))
              (drop_node n (pending sh)),
         mkPers (w_gc p ++ [n]) (w_count p - 1), inr (RDel (Some n) true))
      else failed
    end
  end.

Definition blocked (l : local) (sh : shared) : bool := false.
Definition blocked_begin (o : op) (sh : shared) : bool := false.

Definition sysT := sys shared local pers op result.
Definition stepS : sysT -> nat -> sysT := step_at shared local pers op result begin step blocked blocked_begin.
Definition runS : sysT -> list nat -> sysT := run shared local pers op result begin step blocked blocked_begin.

Definition init (s0 : list ver) (c nv : N) (progs : list (list op)) : sysT :=
  mkSys (mkSh s0 nv c [] []) (map (fun p => mkThread p None (mkPers [] 0) []) progs).

End Machine.
