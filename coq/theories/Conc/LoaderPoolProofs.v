(** The repaired loader pool never gets stuck, every enabled step decreases a (corrected) measure,
    and at the end every shard was read exactly once (inductive invariant + [Inv_run]);
    the original code's deadlock by computation.

    NOTE: [stmt_loader_measure] as stated (with [measure] of LoaderPoolStmts) is FALSE: the step
    that starts a thread (not started -> parked at its first yield point) leaves [measure]
    unchanged.  See [loader_measure_refuted]; the corrected measure is [measure'] and the
    corrected theorem is [loader_measure']. *)
From Coq Require Import List Arith Lia Bool Sorting.Permutation.
From NV Require Import Base.Sched Conc.LoaderPool Conc.LoaderPoolStmts.
Import ListNotations.

Notation thr := (thread local pers op result).

(** * Generic helpers *)

Fixpoint sumN (f : thr -> nat) (l : list thr) : nat :=
  match l with [] => 0 | t :: r => f t + sumN f r end.

Lemma sumN_upd f i t t' l : nth_error l i = Some t ->
  sumN f (upd_th i t' l) + f t = sumN f l + f t'.
Proof.
  revert i. induction l as [|x r IH]; intros [|i] H; cbn in *; try discriminate.
  - inversion H; subst. lia.
  - pose proof (IH i H). lia.
Qed.

Lemma sumN_le f l : (forall t, f t <= 1) -> sumN f l <= length l.
Proof.
  intros Hf. induction l as [|x r IH]; cbn; [lia|]. pose proof (Hf x). lia.
Qed.

Lemma sumN_lt_ex f l : (forall t, f t <= 1) -> sumN f l < length l ->
  exists j t, nth_error l j = Some t /\ f t = 0.
Proof.
  intros Hf. induction l as [|x r IH]; cbn; intros H; [lia|].
  destruct (f x) as [|k] eqn:E.
  - exists 0, x. split; [reflexivity|exact E].
  - pose proof (Hf x). destruct IH as [j [t [Hj Ht]]]; [lia|].
    exists (S j), t. split; [exact Hj|exact Ht].
Qed.

Lemma sumN_full f l : (forall t, f t <= 1) -> sumN f l = length l -> forall t, In t l -> f t = 1.
Proof.
  intros Hf. induction l as [|x r IH]; cbn; intros H t Hin; [destruct Hin|].
  pose proof (Hf x). pose proof (sumN_le f r Hf).
  destruct Hin as [->|Hin]; [lia|]. apply IH; [lia|exact Hin].
Qed.

Lemma Forall_upd (P : thr -> Prop) i t' l : Forall P l -> P t' -> Forall P (upd_th i t' l).
Proof.
  intros Hl Ht. revert i. induction Hl as [|x r Hx Hr IH]; intros [|i]; cbn; constructor; auto.
Qed.

Lemma Forall_nth (P : thr -> Prop) i t l : Forall P l -> nth_error l i = Some t -> P t.
Proof. intros Hl Hn. apply nth_error_In in Hn. rewrite Forall_forall in Hl. auto. Qed.

(** * Thread shapes *)

Definition fin (t : thr) : bool := th_finished local pers op result t.
Definition finw (t : thr) : nat := if fin t then 1 else 0.

Lemma finw_le t : finw t <= 1.
Proof. unfold finw. destruct (fin t); lia. Qed.

(** the feeder is: not started / in the send loop / in wg.Wait / finished *)
Definition feeder_ok (t : thr) : Prop :=
  (cur t = None /\ todo t = [OFeeder]) \/ (cur t = Some LFeed /\ todo t = []) \/
  (cur t = Some LWait /\ todo t = []) \/ (cur t = None /\ todo t = []).

(** a loader is: not started / receiving / finished *)
Definition loader_ok (t : thr) : Prop :=
  (cur t = None /\ todo t = [OLoader]) \/ (cur t = Some LRecv /\ todo t = []) \/
  (cur t = None /\ todo t = []).

(** the feeder has closed the channel *)
Definition fclosed (t : thr) : bool :=
  match cur t, todo t with
  | Some LWait, _ => true
  | None, [] => true
  | _, _ => false
  end.

Definition slotl (o : option nat) : list nat := match o with Some s => [s] | None => [] end.

(** * The invariant *)

Record InvR (n : nat) (b : nat -> bool) (c : nat) (s : shared) (f : thr) (ls : list thr) : Prop := {
  i_len : length ls = c;
  i_feeder : feeder_ok f;
  i_loaders : Forall loader_ok ls;
  i_n : nshards s = n;
  i_b : bad s = b;
  i_next : next s <= n;
  (* shards are offered in order and taken in order *)
  i_loaded : loaded s ++ slotl (slot s) = seq 0 (next s);
  i_errors : errors s = filter b (loaded s);
  i_closed : closed s = fclosed f;
  i_closed_next : closed s = true -> next s = n;
  i_exited : exited s = sumN finw ls;
  (* a loader returns only when the channel is closed and drained *)
  i_exit_drained : 0 < exited s -> closed s = true /\ slot s = None;
  i_feeder_done : fin f = true -> exited s = c
}.

Definition Inv (n : nat) (b : nat -> bool) (c : nat) (y : sysT) : Prop :=
  match ths y with
  | f :: ls => InvR n b c (sh y) f ls
  | [] => False
  end.

Lemma sumN_repeat_nf c : sumN finw (repeat (mkThread [OLoader] None tt []) c) = 0.
Proof. induction c as [|c IH]; cbn; [reflexivity|exact IH]. Qed.

Lemma Inv_init n b c : Inv n b c (init n b c).
Proof.
  unfold Inv, init. cbn [ths sh]. constructor; cbn.
  - apply repeat_length.
  - left. auto.
  - apply Forall_forall. intros t Ht. apply repeat_spec in Ht. subst t. left. auto.
  - reflexivity.
  - reflexivity.
  - lia.
  - reflexivity.
  - reflexivity.
  - reflexivity.
  - discriminate.
  - symmetry. apply sumN_repeat_nf.
  - lia.
  - discriminate.
Qed.

Ltac tsimp :=
  cbn [sh ths cur todo pers_of done finish_seg nshards bad next slot closed loaded errors exited
       begin step blocked blocked_begin slotl fclosed fin th_finished negb andb] in *.

(** one step of the feeder, as a function of its shape *)
Lemma step_feeder c s (f : thr) ls :
  stepS true c (mkSys s (f :: ls)) 0 =
  match cur f with
  | Some l =>
    if blocked c l s then mkSys s (f :: ls)
    else let '(s', p, r) := step true 0 l (pers_of f) s in mkSys s' (finish_seg _ _ _ _ f (todo f) p r :: ls)
  | None =>
    match todo f with
    | [] => mkSys s (f :: ls)
    | o :: rest => let '(s', p, r) := begin 0 o (pers_of f) s in mkSys s' (finish_seg _ _ _ _ f rest p r :: ls)
    end
  end.
Proof.
  unfold stepS, step_at. cbn [ths sh nth_error]. destruct (cur f) as [l|].
  - destruct (blocked c l s); [reflexivity|]. destruct (step true 0 l (pers_of f) s) as [[s' p] r]. reflexivity.
  - destruct (todo f) as [|o rest]; [reflexivity|]. cbn [blocked_begin].
    destruct (begin 0 o (pers_of f) s) as [[s' p] r]. reflexivity.
Qed.

Lemma step_loader c s (f : thr) ls j :
  stepS true c (mkSys s (f :: ls)) (S j) =
  match nth_error ls j with
  | None => mkSys s (f :: ls)
  | Some t =>
    match cur t with
    | Some l =>
      if blocked c l s then mkSys s (f :: ls)
      else let '(s', p, r) := step true (S j) l (pers_of t) s in
           mkSys s' (f :: upd_th j (finish_seg _ _ _ _ t (todo t) p r) ls)
    | None =>
      match todo t with
      | [] => mkSys s (f :: ls)
      | o :: rest => let '(s', p, r) := begin (S j) o (pers_of t) s in
                     mkSys s' (f :: upd_th j (finish_seg _ _ _ _ t rest p r) ls)
      end
    end
  end.
Proof.
  unfold stepS, step_at. cbn [ths sh nth_error]. destruct (nth_error ls j) as [t|]; [|reflexivity].
  destruct (cur t) as [l|].
  - destruct (blocked c l s); [reflexivity|]. destruct (step true (S j) l (pers_of t) s) as [[s' p] r]. reflexivity.
  - destruct (todo t) as [|o rest]; [reflexivity|]. cbn [blocked_begin].
    destruct (begin (S j) o (pers_of t) s) as [[s' p] r]. reflexivity.
Qed.

Ltac shape :=
  first [ left; split; reflexivity | right; left; split; reflexivity
        | right; right; left; split; reflexivity | right; right; right; split; reflexivity
        | right; right; split; reflexivity ].
Ltac easygoal := try solve [ shape | discriminate | congruence | lia | assumption ].
Ltac fw H :=
  repeat match type of H with
  | context [finw (mkThread ?a ?b ?c ?d)] =>
    let v := eval cbv in (finw (mkThread a b c d)) in change (finw (mkThread a b c d)) with v in H
  end.
Ltac mkinv := unfold Inv; tsimp; constructor; tsimp; auto; easygoal.

Lemma Inv_step n b c y i : Inv n b c y -> Inv n b c (stepS true c y i).
Proof.
  destruct y as [s l]. unfold Inv at 1. cbn [ths sh]. destruct l as [|f ls]; [intros []|]. intros H.
  destruct i as [|j].
  - (* the feeder *)
    rewrite step_feeder. destruct H. destruct f as [td cu p d]. tsimp.
    destruct i_feeder0 as [[Hc Ht]|[[Hc Ht]|[[Hc Ht]|[Hc Ht]]]]; tsimp; subst cu td.
    + (* start *)
      mkinv.
    + (* send loop *)
      tsimp. destruct (slot s) as [v|] eqn:Es.
      { mkinv; rewrite Es; auto. }
      destruct (Nat.ltb_spec (next s) (nshards s)) as [Hlt|Hge].
      * mkinv.
        -- rewrite seq_S. cbn [plus]. rewrite app_nil_r in i_loaded0. rewrite i_loaded0. reflexivity.
        -- intros Hex. destruct (i_exit_drained0 Hex) as [Hcl _]. congruence.
      * mkinv.
    + (* wg.Wait *)
      tsimp. destruct (Nat.eqb_spec (exited s) c) as [He|Hne]; tsimp; mkinv.
    + (* finished *)
      mkinv.
  - (* a loader *)
    rewrite step_loader. destruct (nth_error ls j) as [t|] eqn:Hn; [|exact H].
    destruct H. pose proof (Forall_nth _ _ _ _ i_loaders0 Hn) as Hok.
    destruct t as [td cu p d]. tsimp.
    destruct Hok as [[Hc Ht]|[[Hc Ht]|[Hc Ht]]]; tsimp; subst cu td.
    + (* start *)
      pose proof (sumN_upd finw j _ (mkThread [] (Some LRecv) p d) ls Hn) as Hs.
      fw Hs.
      mkinv.
      * rewrite length_upd. exact i_len0.
      * apply Forall_upd; [exact i_loaders0|]. shape.
    + (* receive *)
      tsimp. destruct (slot s) as [v|] eqn:Es.
      * rewrite andb_false_r.
        pose proof (sumN_upd finw j _ (mkThread [] (Some LRecv) p d) ls Hn) as Hs.
        fw Hs.
        mkinv.
        -- rewrite length_upd. exact i_len0.
        -- apply Forall_upd; [exact i_loaders0|]. shape.
        -- rewrite app_nil_r. exact i_loaded0.
        -- rewrite filter_app. cbn [filter]. rewrite i_b0. rewrite i_errors0.
           destruct (b v); [reflexivity|]. rewrite app_nil_r. reflexivity.
        -- intros Hex. destruct (i_exit_drained0 Hex) as [_ Hsl]. discriminate.
      * destruct (closed s) eqn:Ecl; tsimp.
        2:{ mkinv. rewrite Es; exact i_loaded0. }
        pose proof (sumN_upd finw j _ (mkThread [] None p (d ++ [RDone])) ls Hn) as Hs.
        fw Hs.
        pose proof (sumN_le finw (upd_th j (mkThread [] None p (d ++ [RDone])) ls) finw_le) as Hle.
        rewrite length_upd in Hle.
        mkinv.
        -- rewrite length_upd. exact i_len0.
        -- apply Forall_upd; [exact i_loaders0|]. shape.
        -- intros Hf. specialize (i_feeder_done0 Hf). lia.
    + (* finished *)
      mkinv.
Qed.

Lemma Inv_reach n b c sched : Inv n b c (runS true c (init n b c) sched).
Proof.
  unfold runS. apply (Inv_run _ _ _ _ _ _ _ _ _ (Inv n b c)).
  - intros y i. apply Inv_step.
  - apply Inv_init.
Qed.

(** * No deadlock *)

Lemma feeder_enabled c s (f : thr) ls :
  enabled true c (mkSys s (f :: ls)) 0 =
  match cur f, todo f with
  | Some l, _ => negb (blocked c l s)
  | None, _ :: _ => true
  | None, [] => false
  end.
Proof. reflexivity. Qed.

Lemma loader_enabled_eq c s (f : thr) ls j :
  enabled true c (mkSys s (f :: ls)) (S j) =
  match nth_error ls j with
  | Some t =>
    match cur t, todo t with
    | Some l, _ => negb (blocked c l s)
    | None, _ :: _ => true
    | None, [] => false
    end
  | None => false
  end.
Proof. reflexivity. Qed.

(** a loader that has not returned can run as soon as the slot is full or the channel closed *)
Lemma loader_enabled c s (f : thr) ls j t :
  nth_error ls j = Some t -> loader_ok t -> finw t = 0 ->
  (slot s <> None \/ closed s = true) ->
  enabled true c (mkSys s (f :: ls)) (S j) = true.
Proof.
  intros Hn Hok Hf Hs. rewrite loader_enabled_eq, Hn.
  destruct t as [td cu p d]. tsimp.
  destruct Hok as [[Hc Ht]|[[Hc Ht]|[Hc Ht]]]; tsimp; subst cu td; tsimp.
  - reflexivity.
  - destruct (slot s); [reflexivity|]. destruct Hs as [Hs|Hs]; [congruence|]. rewrite Hs. reflexivity.
  - discriminate Hf.
Qed.

Lemma quiescent_cons s (f : thr) ls :
  quiescentL (mkSys s (f :: ls)) = fin f && forallb fin ls.
Proof. reflexivity. Qed.

Theorem loader_no_deadlock : stmt_loader_no_deadlock.
Proof.
  intros n b c sched Hc. cbv zeta.
  generalize (Inv_reach n b c sched). generalize (runS true c (init n b c) sched) as y.
  intros [s l]. unfold Inv. cbn [ths sh]. destruct l as [|f ls]; [intros []|]. intros H. destruct H.
  assert (Hex : sumN finw ls < length ls -> (slot s <> None \/ closed s = true) ->
                exists i, enabled true c (mkSys s (f :: ls)) i = true).
  { intros Hlt Hs. destruct (sumN_lt_ex finw ls finw_le Hlt) as [j [t [Hn Ht]]].
    exists (S j). apply (loader_enabled c s f ls j t); auto.
    apply (Forall_nth _ _ _ _ i_loaders0 Hn). }
  destruct f as [td cu p d]. tsimp.
  destruct i_feeder0 as [[Hcu Ht]|[[Hcu Ht]|[[Hcu Ht]|[Hcu Ht]]]]; tsimp; subst cu td; tsimp.
  - right. exists 0. reflexivity.
  - destruct (slot s) as [v|] eqn:Es.
    + right. apply Hex; [|left; discriminate].
      destruct (exited s) as [|k] eqn:Ee.
      * lia.
      * destruct i_exit_drained0 as [Hcl _]; [lia|congruence].
    + right. exists 0. rewrite feeder_enabled. tsimp. rewrite Es. reflexivity.
  - right. destruct (Nat.eq_dec (exited s) c) as [He|Hne].
    + exists 0. rewrite feeder_enabled. tsimp. rewrite He, Nat.eqb_refl. reflexivity.
    + apply Hex; [|right; exact i_closed0].
      pose proof (sumN_le finw ls finw_le). lia.
  - left. rewrite quiescent_cons. tsimp. apply forallb_forall. intros t Ht.
    assert (E : finw t = 1).
    { apply (sumN_full finw ls finw_le); [|exact Ht]. specialize (i_feeder_done0 eq_refl). lia. }
    unfold finw in E. destruct (fin t); [reflexivity|discriminate].
Qed.

Print Assumptions loader_no_deadlock.

(** * Completeness *)

Theorem loader_complete : stmt_loader_complete.
Proof.
  intros n b c sched Hc. cbv zeta.
  generalize (Inv_reach n b c sched). generalize (runS true c (init n b c) sched) as y.
  intros [s l]. unfold Inv. cbn [ths sh]. destruct l as [|f ls]; [intros []|]. intros H Hq. destruct H.
  rewrite quiescent_cons in Hq. apply andb_true_iff in Hq. destruct Hq as [Hf Hl].
  specialize (i_feeder_done0 Hf).
  destruct i_exit_drained0 as [Hcl Hsl]; [lia|].
  specialize (i_closed_next0 Hcl).
  rewrite Hsl in i_loaded0. cbn [slotl] in i_loaded0. rewrite app_nil_r in i_loaded0.
  rewrite i_errors0, i_loaded0, i_closed_next0. split; apply Permutation_refl.
Qed.

Print Assumptions loader_complete.

(** * The measure *)

(** [stmt_loader_measure] is false as stated: the step that starts a thread changes neither the
    shared state nor the number of unfinished threads, so [measure] stays the same.
    Counterexample: n = 0, b = (fun _ => false), c = 1, sched = [], i = 0 : measure 5 -> 5. *)
Example loader_measure_counterexample :
  let y := runS true 1 (init 0 (fun _ => false) 1) [] in
  enabled true 1 y 0 = true /\ measure y = 5 /\ measure (stepS true 1 y 0) = 5.
Proof. vm_compute. auto. Qed.

Theorem loader_measure_refuted : ~ stmt_loader_measure.
Proof.
  intros H. specialize (H 0 (fun _ => false) 1 [] 0 (le_n 1)). cbv zeta in H.
  specialize (H eq_refl). vm_compute in H. lia.
Qed.

Print Assumptions loader_measure_refuted.

(** what does hold for [measure]: no step increases it (see [loader_measure_weak] below) and
    the corrected measure, which also counts the threads that have not started yet,
    strictly decreases on every enabled step. *)
Definition notstarted (t : thr) : bool :=
  match cur t, todo t with None, _ :: _ => true | _, _ => false end.

(** corrected measure; initially 3n + 3c + 4 *)
Definition measure' (y : sysT) : nat := measure y + length (filter notstarted (ths y)).

Definition stmt_loader_measure' : Prop :=
  forall n b c sched i, (1 <= c)%nat ->
    let y := runS true c (init n b c) sched in
    enabled true c y i = true -> (measure' (stepS true c y i) < measure' y)%nat.

(** per-thread weights: not started 3, parked 2, finished 0 *)
Definition w (t : thr) : nat :=
  match cur t, todo t with None, [] => 0 | None, _ :: _ => 3 | Some _, _ => 2 end.
(** the weights of [measure]: unfinished 2 *)
Definition w0 (t : thr) : nat :=
  match cur t, todo t with None, [] => 0 | _, _ => 2 end.

Definition shw (s : shared) : nat :=
  3 * (nshards s - next s) + (match slot s with Some _ => 2 | None => 0 end)
  + (if closed s then 0 else 1).

Lemma measure_eq y : measure y = shw (sh y) + sumN w0 (ths y).
Proof.
  unfold measure, shw. f_equal. induction (ths y) as [|t r IH]; [reflexivity|].
  cbn [filter sumN]. unfold w0 at 1. destruct (cur t); [|destruct (todo t)]; cbn [length]; lia.
Qed.

Lemma measure'_eq y : measure' y = shw (sh y) + sumN w (ths y).
Proof.
  unfold measure'. rewrite measure_eq. rewrite <- Nat.add_assoc. f_equal.
  induction (ths y) as [|t r IH]; [reflexivity|].
  cbn [filter sumN]. unfold w0 at 1, w at 1, notstarted at 1.
  destruct (cur t); [|destruct (todo t)]; cbn [length]; lia.
Qed.

Lemma measure'_init n b c : measure' (init n b c) = 3 * n + 3 * c + 4.
Proof.
  rewrite measure'_eq. unfold init, shw. cbn [sh ths nshards next slot closed sumN].
  assert (E : sumN w (repeat (mkThread [OLoader] None tt []) c) = 3 * c).
  { induction c as [|c IH]; [reflexivity|]. cbn [repeat sumN]. rewrite IH. cbn [w cur todo]. lia. }
  rewrite E. cbn [w cur todo]. lia.
Qed.

Ltac wsimp := cbn [sumN w w0 cur todo] in *.

(** both measures along one step, under the invariant *)
Lemma measure_step n b c y i : Inv n b c y ->
  (enabled true c y i = true -> measure' (stepS true c y i) < measure' y) /\
  measure (stepS true c y i) <= measure y.
Proof.
  rewrite !measure'_eq, !measure_eq.
  destruct y as [s l]. unfold Inv. cbn [ths sh]. destruct l as [|f ls]; [intros []|]. intros H.
  destruct i as [|j].
  - (* the feeder *)
    rewrite feeder_enabled, step_feeder. destruct H. destruct f as [td cu p d]. tsimp.
    destruct i_feeder0 as [[Hc Ht]|[[Hc Ht]|[[Hc Ht]|[Hc Ht]]]]; tsimp; subst cu td; tsimp; wsimp.
    + lia.
    + destruct (slot s) as [v|] eqn:Es; tsimp; wsimp.
      { split; [discriminate|lia]. }
      unfold shw. destruct (Nat.ltb_spec (next s) (nshards s)) as [Hlt|Hge]; tsimp; wsimp; rewrite ?Es, ?i_closed0; lia.
    + destruct (Nat.eqb (exited s) c); tsimp; wsimp.
      * lia.
      * split; [discriminate|lia].
    + split; [discriminate|lia].
  - (* a loader *)
    rewrite loader_enabled_eq, step_loader.
    destruct (nth_error ls j) as [t|] eqn:Hn; [|tsimp; split; [discriminate|lia]].
    destruct H. pose proof (Forall_nth _ _ _ _ i_loaders0 Hn) as Hok.
    destruct t as [td cu p d]. tsimp.
    destruct Hok as [[Hc Ht]|[[Hc Ht]|[Hc Ht]]]; tsimp; subst cu td; tsimp.
    + pose proof (sumN_upd w j _ (mkThread [] (Some LRecv) p d) ls Hn) as Hs.
      pose proof (sumN_upd w0 j _ (mkThread [] (Some LRecv) p d) ls Hn) as Hs0.
      wsimp. lia.
    + destruct (slot s) as [v|] eqn:Es; tsimp.
      * rewrite andb_false_r. tsimp.
        pose proof (sumN_upd w j _ (mkThread [] (Some LRecv) p d) ls Hn) as Hs.
        pose proof (sumN_upd w0 j _ (mkThread [] (Some LRecv) p d) ls Hn) as Hs0.
        unfold shw. tsimp. rewrite Es. wsimp. lia.
      * destruct (closed s) eqn:Ecl; tsimp.
        2:{ split; [discriminate|lia]. }
        pose proof (sumN_upd w j _ (mkThread [] None p (d ++ [RDone])) ls Hn) as Hs.
        pose proof (sumN_upd w0 j _ (mkThread [] None p (d ++ [RDone])) ls Hn) as Hs0.
        unfold shw. tsimp. rewrite Es, Ecl. wsimp. lia.
    + split; [discriminate|lia].
Qed.

(** the corrected statement: every enabled step strictly decreases [measure'] *)
Theorem loader_measure' : stmt_loader_measure'.
Proof.
  intros n b c sched i Hc. cbv zeta. intros He.
  apply (measure_step n b c _ i (Inv_reach n b c sched)). exact He.
Qed.

Print Assumptions loader_measure'.

(** the original [measure] is only non-increasing *)
Theorem loader_measure_weak : forall n b c sched i,
  let y := runS true c (init n b c) sched in
  (measure (stepS true c y i) <= measure y)%nat.
Proof.
  intros n b c sched i. cbv zeta.
  apply (measure_step n b c _ i (Inv_reach n b c sched)).
Qed.

Print Assumptions loader_measure_weak.

(** * The original code's deadlock: three failing shards, two loaders; both loaders have returned
    after an error each, the feeder sits in the send loop with the third shard in flight. *)
Example loader_original_stuck :
  let y := runS false 2 (init 3 (fun _ => true) 2) [0;1;2;0;0;1;0;2;0;0;0;1;2;0;1;2]%nat in
  quiescentL y = false /\ forallb (fun i => negb (enabled false 2 y i)) [0;1;2]%nat = true.
Proof. vm_compute. split; reflexivity. Qed.

Print Assumptions loader_original_stuck.
