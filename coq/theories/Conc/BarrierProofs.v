(** Safety and quiescent liveness of the repaired access barrier, for every program and schedule
    (inductive invariant + [Inv_run]); refutation of the original code by computation. *)
From Coq Require Import List Arith ZArith Lia Bool.
From NV Require Import Base.Sched Conc.Barrier.
Import ListNotations.
Open Scope Z_scope.

(* [pers] is written unfolded everywhere so that terms stay syntactically uniform *)
Notation thr := (thread local (list nat) op result).
Notation sysU := (sys shared local (list nat) op result).

(** * The original code loses a wake-up *)

Example lost_wakeup_refuted :
  let progs := [[OAcquire; ORelease 0]; [OAcquire; OAcquire; ORelease 0; ORelease 0];
                [OAcquire; ORelease 0; OAcquire; ORelease 0]; [OFlush 1; OFlush 2]] in
  let sc := [1; 1; 0; 1; 2; 3; 1; 0; 3; 2; 1; 3; 3; 3; 3; 3; 3; 2; 3; 3; 2; 0; 1; 3; 1; 1; 1; 3; 3; 2; 2; 2; 2]%nat in
  let y := runS false (init progs) sc in
  quiescent shared local pers op result y = true /\
  (forall t, In t (ths y) -> pers_of t = []) /\
  freeq (sh y) = [0%nat; 1%nat] /\ destructed (sh y) = [] /\ activeSeqno (sh y) = 2%nat.
Proof.
  vm_compute. split; [reflexivity|]. split; [|repeat split].
  intros t [<-|[<-|[<-|[<-|[]]]]]; reflexivity.
Qed.

(** * Generic helpers *)

Lemma sum_upd (f : thr -> Z) i t t' l :
  nth_error l i = Some t -> sumZ f (upd_th i t' l) = sumZ f l - f t + f t'.
Proof. apply sumZ_upd. Qed.

Lemma sum_nonneg (f : thr -> Z) l : (forall u, In u l -> 0 <= f u) -> 0 <= sumZ f l.
Proof.
  induction l as [|x r IH]; intros Hf; cbn [sumZ]; [lia|].
  pose proof (Hf x (or_introl eq_refl)). assert (0 <= sumZ f r) by (apply IH; intros; apply Hf; now right). lia.
Qed.

Lemma sum_ge (f : thr -> Z) l t : (forall u, 0 <= f u) -> In t l -> f t <= sumZ f l.
Proof.
  intros Hf. induction l as [|x r IH]; intros Hin; [destruct Hin|]. cbn [sumZ].
  pose proof (sum_nonneg f r (fun u _ => Hf u)).
  destruct Hin as [->|Hin]; [lia|]. pose proof (IH Hin). pose proof (Hf x). lia.
Qed.

Lemma sum_zero (f : thr -> Z) l : (forall u, In u l -> f u = 0) -> sumZ f l = 0.
Proof.
  induction l as [|x r IH]; intros Hf; cbn [sumZ]; [reflexivity|].
  rewrite (Hf x (or_introl eq_refl)), IH; [reflexivity|]. intros; apply Hf; now right.
Qed.

Lemma sum_le (f g : thr -> Z) l : (forall u, In u l -> f u <= g u) -> sumZ f l <= sumZ g l.
Proof.
  induction l as [|x r IH]; intros Hf; cbn [sumZ]; [lia|].
  pose proof (Hf x (or_introl eq_refl)). assert (sumZ f r <= sumZ g r) by (apply IH; intros; apply Hf; now right). lia.
Qed.

Lemma sum_le_at (f g : thr -> Z) l t : (forall u, f u <= g u) -> In t l ->
  sumZ f l + (g t - f t) <= sumZ g l.
Proof.
  intros Hf. induction l as [|x r IH]; intros Hin; [destruct Hin|]. cbn [sumZ].
  destruct Hin as [->|Hin].
  - pose proof (sum_le f g r (fun u _ => Hf u)). lia.
  - pose proof (IH Hin). pose proof (Hf x). lia.
Qed.

Lemma sum_add (f g : thr -> Z) l : sumZ (fun u => f u + g u) l = sumZ f l + sumZ g l.
Proof. induction l as [|x r IH]; cbn [sumZ]; lia. Qed.

(** [u] sits at a position different from [i] *)
Definition others (l : list thr) (i : nat) (u : thr) : Prop :=
  exists j, j <> i /\ nth_error l j = Some u.

Lemma others_In l i u : others l i u -> In u l.
Proof. intros [j [_ H]]. eapply nth_error_In; eauto. Qed.

Lemma In_upd i (t' : thr) l u : In u (upd_th i t' l) -> u = t' \/ others l i u.
Proof.
  revert i. induction l as [|x r IH]; intros [|i] H; cbn in *; auto; try contradiction.
  - destruct H as [H|H]; auto. right. apply In_nth_error in H. destruct H as [j Hj].
    exists (S j). split; [lia|exact Hj].
  - destruct H as [H|H].
    + right. exists 0%nat. split; [lia|]. cbn. now subst.
    + destruct (IH _ H) as [E|[j [Hj Hn]]]; auto. right. exists (S j). split; [lia|exact Hn].
Qed.

Lemma others_sum (f : thr -> Z) l i t u : (forall x, 0 <= f x) ->
  nth_error l i = Some t -> others l i u -> f t + f u <= sumZ f l.
Proof.
  intros Hf. revert i. induction l as [|x r IH]; intros i Ht [j [Hj Hu]].
  - destruct i; discriminate.
  - cbn [sumZ]. destruct i as [|i], j as [|j]; cbn in Ht, Hu; try lia.
    + inversion Ht; subst. assert (In u r) by (eapply nth_error_In; eauto).
      pose proof (sum_ge f r u Hf H). lia.
    + inversion Hu; subst. assert (In t r) by (eapply nth_error_In; eauto).
      pose proof (sum_ge f r t Hf H). lia.
    + assert (others r i u) by (exists j; split; [lia|exact Hu]).
      pose proof (IH i Ht H). pose proof (Hf x). lia.
Qed.

Lemma nth_lt {A} (l : list A) i t : nth_error l i = Some t -> (i < length l)%nat.
Proof. intros H. apply nth_error_Some. congruence. Qed.

(** lists of sessions *)
Lemma length_set_nth {A} i (v : A) l : length (set_nth i v l) = length l.
Proof. revert i. induction l as [|x r IH]; intros [|i]; cbn; auto. Qed.

Lemma nth_set_nth {A} (d : A) i v l j : (i < length l)%nat ->
  nth j (set_nth i v l) d = if Nat.eqb j i then v else nth j l d.
Proof.
  revert i j. induction l as [|x r IH]; intros [|i] [|j] H; cbn in *; try lia; auto.
  apply IH. lia.
Qed.

Lemma set_nth_twice {A} i (v w : A) l : set_nth i w (set_nth i v l) = set_nth i w l.
Proof. revert i. induction l as [|x r IH]; intros [|i]; cbn; auto. now rewrite IH. Qed.

Notation dflt := (mkSess 0 0 0 0).
Notation getl l s := (nth s l dflt).

Lemma get_getl sh s : get sh s = getl (sessions sh) s.
Proof. reflexivity. Qed.

Lemma getl_set i v l j : (i < length l)%nat -> getl (set_nth i v l) j = if Nat.eqb j i then v else getl l j.
Proof. apply nth_set_nth. Qed.

Lemma set_nth_out {A} i (v : A) l : (length l <= i)%nat -> set_nth i v l = l.
Proof. revert i. induction l as [|x r IH]; intros [|i] H; cbn in *; auto; try lia. now rewrite IH by lia. Qed.

Lemma seqno_set L s0 v c o x :
  seqno (getl (set_nth s0 (mkSess v c (seqno (getl L s0)) o) L) x) = seqno (getl L x).
Proof.
  destruct (lt_dec s0 (length L)).
  - rewrite getl_set by assumption. destruct (Nat.eqb_spec x s0); subst; reflexivity.
  - now rewrite set_nth_out by lia.
Qed.

Lemma oref_set L s0 v c q x :
  oref (getl (set_nth s0 (mkSess v c q (oref (getl L s0))) L) x) = oref (getl L x).
Proof.
  destruct (lt_dec s0 (length L)).
  - rewrite getl_set by assumption. destruct (Nat.eqb_spec x s0); subst; reflexivity.
  - now rewrite set_nth_out by lia.
Qed.

Lemma getl_out l j : (length l <= j)%nat -> getl l j = dflt.
Proof. intros. now apply nth_overflow. Qed.

Lemma getl_app_dflt l j : getl (l ++ [dflt]) j = getl l j.
Proof.
  destruct (lt_dec j (length l)).
  - now apply app_nth1.
  - rewrite (nth_overflow l) by lia. rewrite app_nth2 by lia.
    destruct (j - length l)%nat as [|[|k]]; reflexivity.
Qed.

(** removing the k-th token *)
Lemma count_remove_nth (p : list nat) k s x : nth_error p k = Some s ->
  Z.of_nat (count_occ Nat.eq_dec (firstn k p ++ skipn (S k) p) x)
  = Z.of_nat (count_occ Nat.eq_dec p x) - (if Nat.eqb s x then 1 else 0).
Proof.
  revert k. induction p as [|a r IH]; intros [|k] H; cbn [nth_error] in H; try discriminate.
  - inversion H; subst. cbn [firstn skipn app count_occ].
    destruct (Nat.eq_dec s x), (Nat.eqb_spec s x); try congruence; lia.
  - cbn [firstn skipn app count_occ]. specialize (IH k H). cbn [skipn] in IH.
    destruct (Nat.eq_dec a x); lia.
Qed.

Lemma length_remove_nth (p : list nat) k s : nth_error p k = Some s ->
  Z.of_nat (length (firstn k p ++ skipn (S k) p)) = Z.of_nat (length p) - 1.
Proof.
  revert k. induction p as [|a r IH]; intros [|k] H; cbn [nth_error] in H; try discriminate.
  - cbn [firstn skipn app length]. lia.
  - cbn [firstn skipn app length]. specialize (IH k H). cbn [skipn] in IH. lia.
Qed.

(** the destructor queue, sorted by session id *)
Fixpoint sorted (q : list nat) : Prop :=
  match q with [] => True | x :: r => (forall y, In y r -> (x < y)%nat) /\ sorted r end.

Lemma In_insert_q sh s q y : In y (insert_q sh s q) <-> y = s \/ In y q.
Proof.
  induction q as [|x r IH]; cbn [insert_q In]; [intuition|].
  destruct (_ <? _)%nat; cbn [In]; [intuition|]. rewrite IH. intuition.
Qed.

Lemma count_insert_q sh s q y :
  Z.of_nat (count_occ Nat.eq_dec (insert_q sh s q) y)
  = Z.of_nat (count_occ Nat.eq_dec q y) + (if Nat.eqb y s then 1 else 0).
Proof.
  induction q as [|x r IH]; cbn [insert_q count_occ].
  - destruct (Nat.eq_dec s y), (Nat.eqb_spec y s); try congruence; lia.
  - destruct (_ <? _)%nat; cbn [count_occ].
    + destruct (Nat.eq_dec s y), (Nat.eqb_spec y s), (Nat.eq_dec x y); try congruence; lia.
    + destruct (Nat.eq_dec x y); lia.
Qed.

Lemma sorted_insert_q sh s q :
  (forall x, In x (s :: q) -> seqno (get sh x) = S x) -> ~ In s q ->
  sorted q -> sorted (insert_q sh s q).
Proof.
  intros Hsq. induction q as [|x r IH]; intros Hn Hs; cbn [insert_q].
  - cbn. split; [intros y []|exact I].
  - destruct Hs as [Hx Hr].
    rewrite (Hsq s (or_introl eq_refl)), (Hsq x (or_intror (or_introl eq_refl))).
    assert (s <> x) by (intros ->; apply Hn; now left).
    destruct (Nat.ltb_spec (S s) (S x)) as [L|L].
    + cbn [sorted]. split; [|split; assumption].
      intros y [<-|Hy]; [lia|]. specialize (Hx y Hy). lia.
    + cbn [sorted]. split.
      * intros y Hy. apply In_insert_q in Hy. destruct Hy as [->|Hy]; [lia|auto].
      * apply IH; auto.
        -- intros z [<-|Hz]; apply Hsq; [now left|right; now right].
        -- intros Hi. apply Hn. now right.
Qed.

Lemma In_remove_nat c q y : In y (remove_nat c q) -> In y q.
Proof.
  induction q as [|x r IH]; cbn [remove_nat]; [auto|].
  destruct (Nat.eqb x c); cbn [In]; intuition.
Qed.

Lemma sorted_remove_nat c q : sorted q -> sorted (remove_nat c q).
Proof.
  induction q as [|x r IH]; cbn [remove_nat sorted]; [auto|]. intros [Hx Hr].
  destruct (Nat.eqb x c); [exact Hr|]. cbn [sorted]. split; [|auto].
  intros y Hy. apply Hx. eapply In_remove_nat; eauto.
Qed.

Lemma count_remove_nat c q y : In c q ->
  Z.of_nat (count_occ Nat.eq_dec (remove_nat c q) y)
  = Z.of_nat (count_occ Nat.eq_dec q y) - (if Nat.eqb y c then 1 else 0).
Proof.
  induction q as [|x r IH]; intros Hin; [destruct Hin|]. cbn [remove_nat count_occ].
  destruct (Nat.eqb_spec x c) as [->|Ne].
  - destruct (Nat.eq_dec c y), (Nat.eqb_spec y c); try congruence; lia.
  - destruct Hin as [E|Hin]; [congruence|]. cbn [count_occ]. specialize (IH Hin).
    destruct (Nat.eq_dec x y); lia.
Qed.

Lemma In_remove_other c q y : In y q -> y <> c -> In y (remove_nat c q).
Proof.
  induction q as [|x r IH]; cbn [remove_nat In]; [auto|]. intros [->|H] Ne.
  - destruct (Nat.eqb_spec y c); [congruence|now left].
  - destruct (Nat.eqb x c); [exact H|right; auto].
Qed.

(** * Weights and the invariant *)

Definition b2z (b : bool) : Z := if b then 1 else 0.
Definition mz (m : option nat) : Z := match m with Some _ => 1 | None => 0 end.
Definition kw (k : cont) : Z := match k with KUnlock => 1 | _ => 0 end.

(** tokens of session x held by the thread *)
Definition hw (x : nat) (t : thr) : Z := Z.of_nat (count_occ Nat.eq_dec (pers_of t) x).
(** flusher between the tagging of x and the addition of offset+1 *)
Definition f2w (x : nat) (o : option local) : Z :=
  match o with Some (LFlush2 s) => b2z (Nat.eqb s x) | _ => 0 end.
(** flusher between the addition and its own Release *)
Definition f3w (x : nat) (o : option local) : Z :=
  match o with Some (LFlush3 s) => b2z (Nat.eqb s x) | _ => 0 end.
(** accessor that incremented the closed session x and has not yet backed off (no token) *)
Definition bw (x : nat) (o : option local) : Z :=
  match o with Some (LAcqBack s) => b2z (Nat.eqb s x) | _ => 0 end.
(** the counter of x was brought to [offset] by this thread, latch not yet attempted *)
Definition zw (x : nat) (o : option local) : Z :=
  match o with Some (LRelZero s _) => b2z (Nat.eqb s x) | _ => 0 end.
(** latch won, x not yet queued *)
Definition law (x : nat) (o : option local) : Z :=
  match o with Some (LRelLatched s _) => b2z (Nat.eqb s x) | _ => 0 end.
(** inside doCleanup (holds the try-lock) *)
Definition gcw (o : option local) : Z :=
  match o with Some (LClean _ _) => 1 | Some (LCleanEnd _) => 1 | _ => 0 end.
(** about to try the lock *)
Definition qw (o : option local) : Z :=
  match o with Some (LRelQueued _ _) => 1 | Some (LCleanReset _) => 1 | _ => 0 end.
(** holds the flush mutex *)
Definition mw (o : option local) : Z :=
  match o with
  | Some (LFlush1 _ _) | Some (LFlush2 _) | Some (LFlush3 _) => 1
  | Some (LRelZero _ k) | Some (LRelLatched _ k) | Some (LRelQueued _ k)
  | Some (LClean _ k) | Some (LCleanEnd k) | Some (LCleanReset k) => kw k
  | _ => 0
  end.
Definition curw (o : option local) : Z := match o with Some _ => 1 | None => 0 end.
(** tokens held + operations still to run: never increases *)
Definition ww (t : thr) : Z :=
  Z.of_nat (length (pers_of t)) + Z.of_nat (length (todo t)) + curw (cur t).

Lemma b2z_nonneg b : 0 <= b2z b. Proof. destruct b; cbn; lia. Qed.
Lemma b2z_le1 b : b2z b <= 1. Proof. destruct b; cbn; lia. Qed.
Lemma kw_nonneg k : 0 <= kw k. Proof. destruct k; cbn; lia. Qed.
Lemma hw_nonneg x t : 0 <= hw x t. Proof. unfold hw. lia. Qed.
Lemma f2w_nonneg x o : 0 <= f2w x o. Proof. destruct o as [[]|]; cbn; try lia; apply b2z_nonneg. Qed.
Lemma f3w_nonneg x o : 0 <= f3w x o. Proof. destruct o as [[]|]; cbn; try lia; apply b2z_nonneg. Qed.
Lemma bw_nonneg x o : 0 <= bw x o. Proof. destruct o as [[]|]; cbn; try lia; apply b2z_nonneg. Qed.
Lemma zw_nonneg x o : 0 <= zw x o. Proof. destruct o as [[]|]; cbn; try lia; apply b2z_nonneg. Qed.
Lemma law_nonneg x o : 0 <= law x o. Proof. destruct o as [[]|]; cbn; try lia; apply b2z_nonneg. Qed.
Lemma gcw_nonneg o : 0 <= gcw o. Proof. destruct o as [[]|]; cbn; lia. Qed.
Lemma qw_nonneg o : 0 <= qw o. Proof. destruct o as [[]|]; cbn; lia. Qed.
Lemma mw_nonneg o : 0 <= mw o. Proof. destruct o as [[]|]; cbn; try lia; apply kw_nonneg. Qed.
Lemma curw_nonneg o : 0 <= curw o. Proof. destruct o; cbn; lia. Qed.
Lemma bw_le_curw x o : bw x o <= curw o.
Proof. destruct o as [[]|]; cbn; try lia. destruct (Nat.eqb _ _); cbn; lia. Qed.
Lemma f23_le_mw x o : f2w x o + f3w x o <= mw o.
Proof. destruct o as [[]|]; cbn; try lia; try apply kw_nonneg; destruct (Nat.eqb _ _); cbn; lia. Qed.

(** what the control state of a thread promises about the shared state *)
Definition locok (s : shared) (o : option local) : Prop :=
  match o with
  | Some (LAcq x) | Some (LAcqBack x) => (x <= activeSeqno s)%nat
  | Some (LFlush1 x _) => x = activeSeqno s
  | Some (LFlush2 x) | Some (LFlush3 x) => (x < activeSeqno s)%nat
  | Some (LClean c _) => In c (freeq s)
  | _ => True
  end.

(** the queue head is the next session to destruct *)
Definition ready (s : shared) : bool :=
  match freeq s with
  | c :: _ => Nat.eqb (seqno (get s c)) (S (freeSeqno s))
  | [] => false
  end.

Record Inv (N : Z) (y : sysU) : Prop := {
  i_panic : panicked (sh y) = false;
  i_len : length (sessions (sh y)) = S (activeSeqno (sh y));
  i_cs : cur_sess (sh y) = activeSeqno (sh y);
  (* session x is tagged by flush number x+1 *)
  i_seq : forall x, seqno (get (sh y) x) = if (x <? activeSeqno (sh y))%nat then S x else 0%nat;
  i_fa : (freeSeqno (sh y) <= activeSeqno (sh y))%nat;
  i_w : sumZ ww (ths y) <= N;
  (* counter accounting *)
  i_live : forall x, live (get (sh y) x)
     = sumZ (hw x) (ths y) + sumZ (fun t => bw x (cur t)) (ths y)
       + (if (x <? activeSeqno (sh y))%nat then offset else 0)
       - offset * sumZ (fun t => f2w x (cur t)) (ths y) + sumZ (fun t => f3w x (cur t)) (ths y);
  i_loc : forall t, In t (ths y) -> locok (sh y) (cur t);
  i_mx : sumZ (fun t => mw (cur t)) (ths y) = mz (mutex (sh y));
  (* the counter stands at [offset] (plus the accessors that are backing off) exactly when the session
     is closed or about to be *)
  i_cl1 : forall x, live (get (sh y) x) = offset ->
     1 <= Z.of_nat (closed (get (sh y) x)) + sumZ (fun t => zw x (cur t)) (ths y);
  i_cl2 : forall x, 1 <= Z.of_nat (closed (get (sh y) x)) + sumZ (fun t => zw x (cur t)) (ths y) ->
     live (get (sh y) x) = offset + sumZ (fun t => bw x (cur t)) (ths y);
  (* a latched session is with its latcher, in the queue, or destructed *)
  i_latch : forall x, (if Nat.eqb (closed (get (sh y) x)) 0 then 0 else 1)
     = sumZ (fun t => law x (cur t)) (ths y) + Z.of_nat (count_occ Nat.eq_dec (freeq (sh y)) x)
       + (if (x <? freeSeqno (sh y))%nat then 1 else 0);
  i_run : sumZ (fun t => gcw (cur t)) (ths y) = b2z (running (sh y));
  i_sorted : sorted (freeq (sh y));
  (* somebody is responsible for a ready queue head *)
  i_resp : ready (sh y) = true -> running (sh y) = true \/ 1 <= sumZ (fun t => qw (cur t)) (ths y);
  i_dseq : map fst (destructed (sh y)) = seq 1 (freeSeqno (sh y));
  i_dlog : forall q r, In (q, r) (destructed (sh y)) ->
     (1 <= q <= freeSeqno (sh y))%nat /\ oref (get (sh y) (pred q)) = r
}.

Ltac psimp :=
  unfold pers in *;
  cbn [sessions cur_sess activeSeqno freeSeqno freeq running mutex destructed panicked sh ths
       cur pers_of todo done finish_seg] in *.

(** * Derived facts *)

Section Derived.
Variable N : Z.
Hypothesis HN : N < offset.
Variable y : sysU.
Hypothesis H : Inv N y.

Lemma F2_nonneg x : 0 <= sumZ (fun t : thr => f2w x (cur t)) (ths y).
Proof. apply sum_nonneg. intros; apply f2w_nonneg. Qed.
Lemma F3_nonneg x : 0 <= sumZ (fun t : thr => f3w x (cur t)) (ths y).
Proof. apply sum_nonneg. intros; apply f3w_nonneg. Qed.
Lemma Z_nonneg x : 0 <= sumZ (fun t : thr => zw x (cur t)) (ths y).
Proof. apply sum_nonneg. intros; apply zw_nonneg. Qed.
Lemma LA_nonneg x : 0 <= sumZ (fun t : thr => law x (cur t)) (ths y).
Proof. apply sum_nonneg. intros; apply law_nonneg. Qed.
Lemma B_nonneg x : 0 <= sumZ (fun t : thr => bw x (cur t)) (ths y).
Proof. apply sum_nonneg. intros; apply bw_nonneg. Qed.
Lemma HW_nonneg x : 0 <= sumZ (hw x) (ths y).
Proof. apply sum_nonneg. intros; apply hw_nonneg. Qed.

Lemma F23_le1 x :
  sumZ (fun t : thr => f2w x (cur t)) (ths y) + sumZ (fun t : thr => f3w x (cur t)) (ths y) <= 1.
Proof.
  rewrite <- sum_add. pose proof (i_mx _ _ H) as E.
  pose proof (sum_le (fun u => f2w x (cur u) + f3w x (cur u)) (fun u => mw (cur u)) (ths y)
                (fun u _ => f23_le_mw x (cur u))) as L.
  destruct (mutex (sh y)); cbn [mz] in E; lia.
Qed.

Lemma F23_zero x : (activeSeqno (sh y) <= x)%nat ->
  sumZ (fun t : thr => f2w x (cur t)) (ths y) = 0 /\ sumZ (fun t : thr => f3w x (cur t)) (ths y) = 0.
Proof.
  intros Hx. split; apply sum_zero; intros u Hu; cbn beta; pose proof (i_loc _ _ H u Hu) as L;
    destruct (cur u) as [[]|]; cbn [f2w f3w locok] in *; try reflexivity;
    destruct (Nat.eqb_spec s x); cbn [b2z]; try reflexivity; lia.
Qed.

(** tokens held on one session, plus threads inside an operation, never exceed the bound *)
Lemma hold_bound x : sumZ (hw x) (ths y) + sumZ (fun t : thr => curw (cur t)) (ths y) <= N.
Proof.
  rewrite <- sum_add. pose proof (i_w _ _ H) as W.
  assert (sumZ (fun u : thr => hw x u + curw (cur u)) (ths y) <= sumZ ww (ths y)); [|lia].
  apply sum_le. intros u _. unfold hw, ww. pose proof (count_occ_bound Nat.eq_dec x (pers_of u)). lia.
Qed.

Lemma curw_sum_nonneg : 0 <= sumZ (fun t : thr => curw (cur t)) (ths y).
Proof. apply sum_nonneg. intros; apply curw_nonneg. Qed.

Lemma B_le_curw x : sumZ (fun t : thr => bw x (cur t)) (ths y) <= sumZ (fun t : thr => curw (cur t)) (ths y).
Proof. apply sum_le. intros u _. apply bw_le_curw. Qed.

(** tokens and in-flight back-offs of one session *)
Lemma hold_lt x : sumZ (hw x) (ths y) + sumZ (fun t : thr => bw x (cur t)) (ths y) < offset.
Proof. pose proof (hold_bound x). pose proof (B_le_curw x). lia. Qed.

(** a counter at [offset] up to the accessors that are backing off: the session is flushed completely
    and nobody holds a token *)
Lemma live_off x : live (get (sh y) x) = offset + sumZ (fun t : thr => bw x (cur t)) (ths y) ->
  (x < activeSeqno (sh y))%nat /\ sumZ (hw x) (ths y) = 0 /\
  sumZ (fun t : thr => f2w x (cur t)) (ths y) = 0 /\ sumZ (fun t : thr => f3w x (cur t)) (ths y) = 0.
Proof.
  intros E. rewrite (i_live _ _ H x) in E.
  pose proof (hold_lt x). pose proof (HW_nonneg x). pose proof (B_nonneg x).
  pose proof (F2_nonneg x). pose proof (F3_nonneg x). pose proof (F23_le1 x).
  destruct (Nat.ltb_spec x (activeSeqno (sh y))) as [L|L].
  - split; [exact L|]. unfold offset in *. lia.
  - destruct (F23_zero x L) as [A B]. rewrite A, B in E. unfold offset in *. lia.
Qed.

(** one above [offset]: exactly one token holder, back-off or flusher is left *)
Lemma live_off1 x : live (get (sh y) x) = offset + 1 ->
  sumZ (hw x) (ths y) + sumZ (fun t : thr => bw x (cur t)) (ths y)
  + sumZ (fun t : thr => f3w x (cur t)) (ths y) = 1.
Proof.
  intros E. rewrite (i_live _ _ H x) in E.
  pose proof (hold_lt x). pose proof (HW_nonneg x). pose proof (B_nonneg x).
  pose proof (F2_nonneg x). pose proof (F3_nonneg x). pose proof (F23_le1 x).
  destruct (Nat.ltb_spec x (activeSeqno (sh y))) as [L|L].
  - unfold offset in *. lia.
  - destruct (F23_zero x L) as [A B]. rewrite A, B in E. unfold offset in *. lia.
Qed.

Lemma closed_off x : closed (get (sh y) x) <> 0%nat ->
  live (get (sh y) x) = offset + sumZ (fun t : thr => bw x (cur t)) (ths y).
Proof. intros C. apply (i_cl2 _ _ H). pose proof (Z_nonneg x). lia. Qed.

Lemma closed_flushed x : closed (get (sh y) x) <> 0%nat -> (x < activeSeqno (sh y))%nat.
Proof. intros C. apply live_off. now apply closed_off. Qed.

Lemma queued x : In x (freeq (sh y)) ->
  closed (get (sh y) x) <> 0%nat /\ (x < activeSeqno (sh y))%nat /\ (freeSeqno (sh y) <= x)%nat /\
  sumZ (fun t : thr => law x (cur t)) (ths y) = 0 /\ count_occ Nat.eq_dec (freeq (sh y)) x = 1%nat.
Proof.
  intros Hq. pose proof (i_latch _ _ H x) as E. pose proof (LA_nonneg x).
  apply (count_occ_In Nat.eq_dec) in Hq.
  assert (C : closed (get (sh y) x) <> 0%nat).
  { intros C0. rewrite C0 in E. cbn [Nat.eqb] in E. destruct (x <? _)%nat; lia. }
  split; [exact C|]. split; [now apply closed_flushed|].
  destruct (Nat.eqb_spec (closed (get (sh y) x)) 0); [congruence|].
  destruct (Nat.ltb_spec x (freeSeqno (sh y))); lia.
Qed.

Lemma seqno_flushed x : (x < activeSeqno (sh y))%nat -> seqno (get (sh y) x) = S x.
Proof. intros L. rewrite (i_seq _ _ H). destruct (Nat.ltb_spec x (activeSeqno (sh y))); [reflexivity|lia]. Qed.

Lemma seqno_eq_S x n : seqno (get (sh y) x) = S n -> x = n /\ (x < activeSeqno (sh y))%nat.
Proof. rewrite (i_seq _ _ H). destruct (Nat.ltb_spec x (activeSeqno (sh y))); [|discriminate]. intros E; split; [congruence|assumption]. Qed.

Lemma ready_head : ready (sh y) = true -> exists r, freeq (sh y) = freeSeqno (sh y) :: r.
Proof.
  unfold ready. destruct (freeq (sh y)) as [|c r] eqn:E; [discriminate|].
  intros R. apply Nat.eqb_eq in R. apply seqno_eq_S in R. destruct R as [-> _]. now exists r.
Qed.

Lemma at_gc t : In t (ths y) -> gcw (cur t) = 1 -> running (sh y) = true.
Proof.
  intros Hin Hw. pose proof (i_run _ _ H) as E.
  pose proof (sum_ge (fun t => gcw (cur t)) (ths y) t (fun u => gcw_nonneg (cur u)) Hin) as G.
  cbn beta in G. destruct (running (sh y)); [reflexivity|cbn [b2z] in E; lia].
Qed.

Lemma held_pos t x : In t (ths y) -> In x (pers_of t) -> 1 <= sumZ (hw x) (ths y).
Proof.
  intros Hin Hx. pose proof (sum_ge (hw x) (ths y) t (hw_nonneg x) Hin) as G.
  apply (count_occ_In Nat.eq_dec) in Hx. unfold hw in G at 1. lia.
Qed.

(** a held token keeps the counter away from [offset] and the session in range *)
Lemma held_live x : 1 <= sumZ (hw x) (ths y) ->
  live (get (sh y) x) <> offset + sumZ (fun t : thr => bw x (cur t)) (ths y) /\
  live (get (sh y) x) <> offset /\
  1 <= live (get (sh y) x) /\ (x <= activeSeqno (sh y))%nat.
Proof.
  intros Hh. split; [intros E; apply live_off in E; lia|].
  pose proof (i_live _ _ H x) as E. pose proof (hold_lt x). pose proof (F2_nonneg x). pose proof (F3_nonneg x).
  pose proof (F23_le1 x). pose proof (B_nonneg x).
  destruct (Nat.ltb_spec x (activeSeqno (sh y))) as [L|L].
  - unfold offset in *. lia.
  - destruct (F23_zero x L) as [A B]. rewrite A, B in E.
    split; [lia|]. split; [lia|].
    destruct (le_lt_dec x (activeSeqno (sh y))) as [|G]; [assumption|exfalso].
    rewrite get_getl, getl_out in E by (rewrite (i_len _ _ H); lia). cbn [live] in E. lia.
Qed.

End Derived.

(** * Preservation *)

Ltac inu Hu := apply In_upd in Hu; destruct Hu as [->|Hu].

Section Step.
Variable N : Z.
Hypothesis HN : N < offset.
Variables (s : shared) (l : list thr) (i : nat) (t t' : thr).
Hypothesis HI : Inv N (mkSys s l).
Hypothesis Et : nth_error l i = Some t.

Lemma Hin : In t l.
Proof. eapply nth_error_In; eauto. Qed.

Ltac sums := rewrite ?(sum_upd _ i t t' l Et); cbn beta.

(** only the try-lock flag and the mutex change *)
Lemma Inv_ctl b m :
  pers_of t' = pers_of t -> ww t' <= ww t ->
  (forall x, f2w x (cur t') = f2w x (cur t)) -> (forall x, f3w x (cur t') = f3w x (cur t)) ->
  (forall x, bw x (cur t') = bw x (cur t)) ->
  (forall x, zw x (cur t') = zw x (cur t)) -> (forall x, law x (cur t') = law x (cur t)) ->
  gcw (cur t') - gcw (cur t) = b2z b - b2z (running s) ->
  mw (cur t') - mw (cur t) = mz m - mz (mutex s) ->
  locok s (cur t') ->
  (ready s = true -> (running s = true \/ 1 <= sumZ (fun u => qw (cur u)) l) ->
     b = true \/ 1 <= sumZ (fun u => qw (cur u)) l - qw (cur t) + qw (cur t')) ->
  Inv N (mkSys (mkSh (sessions s) (cur_sess s) (activeSeqno s) (freeSeqno s) (freeq s) b m
                     (destructed s) (panicked s)) (upd_th i t' l)).
Proof.
  intros Hp Hw H2 H3 Hb Hz Hla Hg Hm Hl Hr.
  destruct HI as [h1 h2 h3 h4 h5 h6 h7 h8 h9 h10 h11 h12 h13 h14 h15 h16 h17]. psimp.
  constructor; psimp; unfold get in *; psimp; auto.
  - sums. lia.
  - intros x. sums. rewrite (h7 x), H2, H3, Hb. unfold hw. rewrite Hp. lia.
  - intros u Hu. inu Hu; [exact Hl|]. apply h8. eapply others_In; eauto.
  - sums. lia.
  - intros x. sums. rewrite Hz. intros E. specialize (h10 x E). lia.
  - intros x. sums. rewrite Hz, Hb. intros E. rewrite (h11 x); lia.
  - intros x. sums. rewrite Hla, (h12 x). lia.
  - sums. lia.
  - intros R. sums. apply Hr; auto.
Qed.

(** the counter of session s0 changes *)
Lemma Inv_live s0 v m :
  (s0 <= activeSeqno s)%nat ->
  (forall x, x <> s0 -> hw x t' = hw x t) ->
  (forall x, x <> s0 -> f2w x (cur t') = f2w x (cur t)) ->
  (forall x, x <> s0 -> f3w x (cur t') = f3w x (cur t)) ->
  (forall x, x <> s0 -> bw x (cur t') = bw x (cur t)) ->
  v = live (get s s0) + (hw s0 t' - hw s0 t) + (bw s0 (cur t') - bw s0 (cur t))
      - offset * (f2w s0 (cur t') - f2w s0 (cur t)) + (f3w s0 (cur t') - f3w s0 (cur t)) ->
  (forall x, x <> s0 -> zw x (cur t') = zw x (cur t)) ->
  zw s0 (cur t) = 0 ->
  (* the counter reaches [offset]: this thread is responsible, and no back-off is in flight *)
  (v = offset -> zw s0 (cur t') = 1 /\
     sumZ (fun u : thr => bw s0 (cur u)) l - bw s0 (cur t) + bw s0 (cur t') = 0) ->
  (* otherwise: on a closed (or about to be closed) session only back-offs come and go *)
  (v <> offset -> zw s0 (cur t') = 0 /\
     (live (get s s0) = offset + sumZ (fun u : thr => bw s0 (cur u)) l ->
      v - live (get s s0) = bw s0 (cur t') - bw s0 (cur t))) ->
  (forall x, law x (cur t') = law x (cur t)) ->
  gcw (cur t') = gcw (cur t) -> qw (cur t') = qw (cur t) ->
  mw (cur t') - mw (cur t) = mz m - mz (mutex s) ->
  ww t' <= ww t -> locok s (cur t') ->
  Inv N (mkSys (mkSh (set_nth s0 (mkSess v (closed (get s s0)) (seqno (get s s0)) (oref (get s s0))) (sessions s))
                     (cur_sess s) (activeSeqno s) (freeSeqno s) (freeq s) (running s) m
                     (destructed s) (panicked s)) (upd_th i t' l)).
Proof.
  intros Hs0 Hh H2 H3 Hb Hv Hz Hz0 Hc1 Hc2 Hla Hg Hq Hm Hw Hl.
  pose proof (Z_nonneg (mkSys s l) s0) as Zn.
  destruct HI as [h1 h2 h3 h4 h5 h6 h7 h8 h9 h10 h11 h12 h13 h14 h15 h16 h17]. psimp.
  assert (Hr : (s0 < length (sessions s))%nat) by lia.
  constructor; psimp; unfold get in *; psimp; auto.
  - now rewrite length_set_nth.
  - intros x. rewrite seqno_set. apply h4.
  - sums. lia.
  - intros x. sums. rewrite getl_set by assumption.
    destruct (Nat.eqb_spec x s0) as [->|Ne]; cbn [live].
    + rewrite Hv, (h7 s0). lia.
    + rewrite (h7 x), Hh, H2, H3, Hb by assumption. lia.
  - intros u Hu. inu Hu; [exact Hl|]. apply h8. eapply others_In; eauto.
  - sums. lia.
  - intros x. sums. rewrite getl_set by assumption.
    destruct (Nat.eqb_spec x s0) as [->|Ne]; cbn [live closed].
    + intros E. destruct (Hc1 E) as [A _]. rewrite A. lia.
    + rewrite (Hz x Ne). intros E. specialize (h10 x E). lia.
  - intros x. sums. rewrite getl_set by assumption.
    destruct (Nat.eqb_spec x s0) as [->|Ne]; cbn [live closed].
    + intros E. destruct (Z.eq_dec v offset) as [Ev|Nv].
      * destruct (Hc1 Ev) as [_ A]. lia.
      * destruct (Hc2 Nv) as [A B].
        assert (Lo : live (getl (sessions s) s0) = offset + sumZ (fun u : thr => bw s0 (cur u)) l) by (apply h11; lia).
        specialize (B Lo). lia.
    + rewrite (Hz x Ne), (Hb x Ne). intros E. rewrite (h11 x); lia.
  - intros x. sums. rewrite getl_set by assumption. rewrite Hla.
    destruct (Nat.eqb_spec x s0) as [->|Ne]; cbn [closed]; rewrite (h12 _); lia.
  - sums. lia.
  - unfold ready. psimp. sums. rewrite Hq. intros R. replace (_ - _ + _) with (sumZ (fun u : thr => qw (cur u)) l) by lia.
    apply h15. unfold ready. destruct (freeq s); [discriminate|]. unfold get in *. psimp. rewrite seqno_set in R. exact R.
  - intros q r Hqr. destruct (h17 q r Hqr) as [A B]. split; [exact A|]. rewrite oref_set. exact B.
Qed.

(** the closed latch of session s0 *)
Lemma Inv_latch s0 k m :
  cur t = Some (LRelZero s0 k) ->
  pers_of t' = pers_of t -> ww t' <= ww t ->
  (forall x, f2w x (cur t') = 0) -> (forall x, f3w x (cur t') = 0) -> (forall x, bw x (cur t') = 0) ->
  (forall x, zw x (cur t') = 0) ->
  (forall x, law x (cur t') = if Nat.eqb x s0 && Nat.eqb (closed (get s s0)) 0 then 1 else 0) ->
  gcw (cur t') = 0 -> qw (cur t') = 0 ->
  mw (cur t') - kw k = mz m - mz (mutex s) ->
  locok s (cur t') ->
  Inv N (mkSys (mkSh (set_nth s0 (mkSess (live (get s s0)) (S (closed (get s s0))) (seqno (get s s0)) (oref (get s s0))) (sessions s))
                     (cur_sess s) (activeSeqno s) (freeSeqno s) (freeq s) (running s) m
                     (destructed s) (panicked s)) (upd_th i t' l)).
Proof.
  intros Ec Hp Hw H2 H3 Hb Hz Hla Hg Hq Hm Hl.
  assert (Hh : forall x, hw x t' = hw x t) by (intros; unfold hw; now rewrite Hp).
  pose proof (Z_nonneg (mkSys s l) s0) as Zn.
  assert (Z1 : 1 <= sumZ (fun u : thr => zw s0 (cur u)) l).
  { pose proof (sum_ge (fun u : thr => zw s0 (cur u)) l t (fun u => zw_nonneg s0 (cur u)) Hin) as G.
    cbn beta in G. rewrite Ec in G. cbn [zw] in G. rewrite Nat.eqb_refl in G. exact G. }
  assert (Lo : live (get s s0) = offset + sumZ (fun u : thr => bw s0 (cur u)) l) by (apply (i_cl2 _ _ HI); psimp; lia).
  destruct (live_off N HN _ HI s0 Lo) as (Hs0 & _). psimp.
  destruct HI as [h1 h2 h3 h4 h5 h6 h7 h8 h9 h10 h11 h12 h13 h14 h15 h16 h17]. psimp.
  assert (Hr : (s0 < length (sessions s))%nat) by lia.
  constructor; psimp; unfold get in *; psimp; auto.
  - now rewrite length_set_nth.
  - intros x. rewrite seqno_set. apply h4.
  - sums. lia.
  - intros x. sums. rewrite getl_set by assumption. rewrite H2, H3, Hb, Ec, Hh. cbn [f2w f3w bw]. destruct (Nat.eqb_spec x s0) as [->|Ne]; cbn [live]; rewrite (h7 _); lia.
  - intros u Hu. inu Hu; [exact Hl|]. apply h8. eapply others_In; eauto.
  - sums. rewrite Ec. cbn [mw]. lia.
  - intros x. sums. rewrite getl_set by assumption. rewrite Hz, Ec. cbn [zw].
    destruct (Nat.eqb_spec x s0) as [->|Ne]; cbn [live closed].
    + rewrite Nat.eqb_refl. cbn [b2z]. intros E. specialize (h10 s0 E). lia.
    + destruct (Nat.eqb_spec s0 x); [congruence|]. cbn [b2z]. intros E. specialize (h10 x E). lia.
  - intros x. sums. rewrite getl_set by assumption. rewrite Hz, Hb, Ec. cbn [zw bw].
    destruct (Nat.eqb_spec x s0) as [->|Ne]; cbn [live closed].
    + intros _. rewrite Lo. lia.
    + destruct (Nat.eqb_spec s0 x); [congruence|]. cbn [b2z]. intros E. rewrite (h11 x); lia.
  - intros x. sums. rewrite getl_set by assumption. rewrite Hla, Ec. cbn [law].
    destruct (Nat.eqb_spec x s0) as [->|Ne]; cbn [closed andb].
    + pose proof (h12 s0) as E. destruct (Nat.eqb_spec (closed (getl (sessions s) s0)) 0); cbn [Nat.eqb]; lia.
    + rewrite (h12 x). lia.
  - sums. rewrite Ec. cbn [gcw]. lia.
  - unfold ready. psimp. sums. rewrite Hq, Ec. cbn [qw]. intros R.
    replace (_ - _ + _) with (sumZ (fun u : thr => qw (cur u)) l) by lia.
    apply h15. unfold ready. destruct (freeq s); [discriminate|]. unfold get in *. psimp. rewrite seqno_set in R. exact R.
  - intros q r Hqr. destruct (h17 q r Hqr) as [A B]. split; [exact A|]. rewrite oref_set. exact B.
Qed.

(** the latched session is inserted into the queue *)
Lemma Inv_insert s0 k :
  cur t = Some (LRelLatched s0 k) -> cur t' = Some (LRelQueued s0 k) ->
  pers_of t' = pers_of t -> ww t' <= ww t ->
  Inv N (mkSys (mkSh (sessions s) (cur_sess s) (activeSeqno s) (freeSeqno s) (insert_q s s0 (freeq s))
                     (running s) (mutex s) (destructed s) (panicked s)) (upd_th i t' l)).
Proof.
  intros Ec Ec' Hp Hw.
  assert (Hh : forall x, hw x t' = hw x t) by (intros; unfold hw; now rewrite Hp).
  assert (L1 : 1 <= sumZ (fun u : thr => law s0 (cur u)) l).
  { pose proof (sum_ge (fun u : thr => law s0 (cur u)) l t (fun u => law_nonneg s0 (cur u)) Hin) as G.
    cbn beta in G. rewrite Ec in G. cbn [law] in G. rewrite Nat.eqb_refl in G. exact G. }
  assert (Hc : closed (get s s0) <> 0%nat /\ ~ In s0 (freeq s)).
  { pose proof (i_latch _ _ HI s0) as E. psimp. split.
    - intros C. rewrite C in E. cbn [Nat.eqb] in E. destruct (s0 <? _)%nat; lia.
    - intros Hq. apply (count_occ_In Nat.eq_dec) in Hq.
      destruct (Nat.eqb _ 0), (s0 <? _)%nat; lia. }
  destruct Hc as [Hc Hnq].
  pose proof (closed_flushed N HN _ HI s0 Hc) as Hs0.
  assert (Hsq : forall x, In x (s0 :: freeq s) -> seqno (get s x) = S x).
  { intros x [<-|Hx]; apply (seqno_flushed N _ HI); [exact Hs0|]. now apply (queued N HN _ HI). }
  pose proof (fun u : thr => qw_nonneg (cur u)) as Qn.
  pose proof (sum_nonneg (fun u : thr => qw (cur u)) l (fun u _ => Qn u)) as Qs.
  destruct HI as [h1 h2 h3 h4 h5 h6 h7 h8 h9 h10 h11 h12 h13 h14 h15 h16 h17]. psimp.
  constructor; psimp; unfold get in *; psimp; auto.
  - sums. lia.
  - intros x. sums. rewrite Ec, Ec', Hh. cbn [f2w f3w bw]. rewrite (h7 x). lia.
  - intros u Hu. inu Hu; [rewrite Ec'; exact I|]. apply others_In in Hu. specialize (h8 u Hu).
    destruct (cur u) as [[]|]; cbn [locok] in *; psimp; auto. apply In_insert_q. now right.
  - sums. rewrite Ec, Ec'. cbn [mw]. lia.
  - intros x. sums. rewrite Ec, Ec'. cbn [zw]. intros E. specialize (h10 x E). lia.
  - intros x. sums. rewrite Ec, Ec'. cbn [zw bw]. intros E. rewrite (h11 x); lia.
  - intros x. sums. rewrite Ec, Ec'. cbn [law]. rewrite count_insert_q, (h12 x).
    rewrite (Nat.eqb_sym x s0). destruct (Nat.eqb s0 x); cbn [b2z]; lia.
  - sums. rewrite Ec, Ec'. cbn [gcw]. lia.
  - apply sorted_insert_q; assumption.
  - intros _. right. sums. rewrite Ec, Ec'. cbn [qw]. lia.
Qed.

(** doCleanup destructs the queued session c *)
Lemma Inv_destruct c k :
  cur t = Some (LClean c k) -> seqno (get s c) = S (freeSeqno s) ->
  pers_of t' = pers_of t -> ww t' <= ww t ->
  (forall x, f2w x (cur t') = 0) -> (forall x, f3w x (cur t') = 0) -> (forall x, bw x (cur t') = 0) ->
  (forall x, zw x (cur t') = 0) ->
  (forall x, law x (cur t') = 0) -> gcw (cur t') = 1 -> mw (cur t') = kw k ->
  (forall s', activeSeqno s' = activeSeqno s -> freeq s' = remove_nat c (freeq s) -> locok s' (cur t')) ->
  Inv N (mkSys (mkSh (sessions s) (cur_sess s) (activeSeqno s) (S (freeSeqno s)) (remove_nat c (freeq s))
                     (running s) (mutex s) (destructed s ++ [(seqno (get s c), oref (get s c))]) (panicked s))
               (upd_th i t' l)).
Proof.
  intros Ec Hsq Hp Hw H2 H3 Hb Hz Hla Hg Hm Hl.
  assert (Hh : forall x, hw x t' = hw x t) by (intros; unfold hw; now rewrite Hp).
  assert (Hcq : In c (freeq s)).
  { pose proof (i_loc _ _ HI t Hin) as L. psimp. rewrite Ec in L. exact L. }
  destruct (seqno_eq_S N _ HI c _ Hsq) as [Hcf Hca]. psimp.
  assert (Hrun : running s = true) by (apply (at_gc N _ HI t Hin); rewrite Ec; reflexivity).
  pose proof (i_run _ _ HI) as Hgs. psimp.
  destruct HI as [h1 h2 h3 h4 h5 h6 h7 h8 h9 h10 h11 h12 h13 h14 h15 h16 h17]. psimp.
  constructor; psimp; unfold get in *; psimp; auto.
  - lia.
  - sums. lia.
  - intros x. sums. rewrite Ec, H2, H3, Hb, Hh. cbn [f2w f3w bw]. rewrite (h7 x). lia.
  - intros u Hu. inu Hu; [apply Hl; reflexivity|].
    pose proof (others_sum (fun u : thr => gcw (cur u)) l i t u (fun u => gcw_nonneg (cur u)) Et Hu) as G.
    cbn beta in G. rewrite Ec in G. cbn [gcw] in G.
    apply others_In in Hu. specialize (h8 u Hu).
    destruct (cur u) as [[]|]; cbn [locok gcw] in *; psimp; auto.
    rewrite Hrun in Hgs. cbn [b2z] in Hgs. lia.
  - sums. rewrite Ec, Hm. cbn [mw]. lia.
  - intros x. sums. rewrite Ec, Hz. cbn [zw]. intros E. specialize (h10 x E). lia.
  - intros x. sums. rewrite Ec, Hz, Hb. cbn [zw bw]. intros E. rewrite (h11 x); lia.
  - intros x. sums. rewrite Ec, Hla. cbn [law]. rewrite (count_remove_nat c _ x Hcq), (h12 x).
    subst c. destruct (Nat.eqb_spec x (freeSeqno s)) as [->|Ne].
    + destruct (Nat.ltb_spec (freeSeqno s) (freeSeqno s)), (Nat.ltb_spec (freeSeqno s) (S (freeSeqno s))); lia.
    + destruct (Nat.ltb_spec x (freeSeqno s)), (Nat.ltb_spec x (S (freeSeqno s))); lia.
  - sums. rewrite Ec, Hg. cbn [gcw]. lia.
  - now apply sorted_remove_nat.
  - rewrite map_app, h16, Hsq. cbn [map fst]. now rewrite seq_S.
  - intros q r Hqr. apply in_app_or in Hqr. destruct Hqr as [Hqr|[Hqr|[]]].
    + destruct (h17 q r Hqr) as [A B]. split; [lia|exact B].
    + inversion Hqr; subst q r. rewrite Hsq. cbn [pred]. subst c. split; [lia|reflexivity].
Qed.

(** FlushSession installs a fresh session and tags the old one *)
Lemma Inv_flush1 s0 r :
  cur t = Some (LFlush1 s0 r) -> cur t' = Some (LFlush2 s0) ->
  pers_of t' = pers_of t -> ww t' <= ww t ->
  Inv N (mkSys (mkSh (set_nth s0 (mkSess (live (get s s0)) (closed (get s s0)) (S (activeSeqno s)) r) (sessions s) ++ [dflt])
                     (length (sessions s)) (S (activeSeqno s)) (freeSeqno s) (freeq s)
                     (running s) (mutex s) (destructed s) (panicked s))
               (upd_th i t' l)).
Proof.
  intros Ec Ec' Hp Hw.
  assert (Hh : forall x, hw x t' = hw x t) by (intros; unfold hw; now rewrite Hp).
  assert (Hs0 : s0 = activeSeqno s).
  { pose proof (i_loc _ _ HI t Hin) as L. psimp. rewrite Ec in L. exact L. }
  pose proof (i_mx _ _ HI) as Hms. psimp.
  assert (Hq : forall x, In x (freeq s) -> x <> s0).
  { intros x Hx. pose proof (queued N HN _ HI x Hx). psimp. lia. }
  destruct HI as [h1 h2 h3 h4 h5 h6 h7 h8 h9 h10 h11 h12 h13 h14 h15 h16 h17]. psimp.
  assert (Hr : (s0 < length (sessions s))%nat) by lia.
  assert (G : forall x, getl (set_nth s0 (mkSess (live (get s s0)) (closed (get s s0)) (S (activeSeqno s)) r) (sessions s) ++ [dflt]) x
              = if Nat.eqb x s0 then mkSess (live (get s s0)) (closed (get s s0)) (S (activeSeqno s)) r else getl (sessions s) x).
  { intros x. rewrite getl_app_dflt. now apply getl_set. }
  constructor; psimp; unfold get in *; psimp; auto.
  - rewrite app_length, length_set_nth. cbn [length]. lia.
  - intros x. rewrite G. destruct (Nat.eqb_spec x s0) as [->|Ne]; cbn [seqno].
    + destruct (Nat.ltb_spec s0 (S (activeSeqno s))); lia.
    + rewrite (h4 x). destruct (Nat.ltb_spec x (activeSeqno s)), (Nat.ltb_spec x (S (activeSeqno s))); lia.
  - sums. lia.
  - intros x. sums. rewrite G, Ec, Ec', Hh. cbn [f2w f3w bw].
    destruct (Nat.eqb_spec x s0) as [->|Ne]; cbn [live].
    + rewrite Nat.eqb_refl. cbn [b2z]. rewrite (h7 s0).
      destruct (Nat.ltb_spec s0 (activeSeqno s)), (Nat.ltb_spec s0 (S (activeSeqno s))); lia.
    + destruct (Nat.eqb_spec s0 x); [congruence|]. cbn [b2z]. rewrite (h7 x).
      destruct (Nat.ltb_spec x (activeSeqno s)), (Nat.ltb_spec x (S (activeSeqno s))); lia.
  - intros u Hu. inu Hu; [rewrite Ec'; cbn [locok]; psimp; lia|].
    pose proof (others_sum (fun u : thr => mw (cur u)) l i t u (fun u => mw_nonneg (cur u)) Et Hu) as M.
    cbn beta in M. rewrite Ec in M. cbn [mw] in M.
    apply others_In in Hu. specialize (h8 u Hu).
    destruct (cur u) as [[]|]; cbn [locok mw] in *; psimp; auto; try lia.
    destruct (mutex s); cbn [mz] in Hms; lia.
  - sums. rewrite Ec, Ec'. cbn [mw]. lia.
  - intros x. sums. rewrite G, Ec, Ec'. cbn [zw]. replace (_ - 0 + 0) with (sumZ (fun u : thr => zw x (cur u)) l) by lia.
    destruct (Nat.eqb_spec x s0) as [->|Ne]; cbn [live closed] in *; apply h10.
  - intros x. sums. rewrite G, Ec, Ec'. cbn [zw bw]. replace (_ - 0 + 0) with (sumZ (fun u : thr => zw x (cur u)) l) by lia.
    replace (_ - 0 + 0) with (sumZ (fun u : thr => bw x (cur u)) l) by lia.
    destruct (Nat.eqb_spec x s0) as [->|Ne]; cbn [live closed] in *; apply h11.
  - intros x. sums. rewrite G, Ec, Ec'. cbn [law]. pose proof (h12 x) as E.
    destruct (Nat.eqb_spec x s0) as [->|Ne]; cbn [closed]; lia.
  - sums. rewrite Ec, Ec'. cbn [gcw]. lia.
  - unfold ready. psimp. sums. rewrite Ec, Ec'. cbn [qw]. intros R.
    replace (_ - _ + _) with (sumZ (fun u : thr => qw (cur u)) l) by lia.
    apply h15. unfold ready. destruct (freeq s) as [|c q]; [discriminate|]. unfold get in *. psimp.
    rewrite G in R. destruct (Nat.eqb_spec c s0) as [E|Ne]; [|exact R].
    exfalso. apply (Hq c); [now left|exact E].
  - intros q r0 Hqr. destruct (h17 q r0 Hqr) as [A B]. split; [exact A|]. rewrite G.
    destruct (Nat.eqb_spec (pred q) s0); [lia|exact B].
Qed.

End Step.

(** * The machine's composite segments *)

Lemma get_mk_set s0 x L a b c d e f g h : (s0 < length L)%nat ->
  get (mkSh (set_nth s0 x L) a b c d e f g h) s0 = x.
Proof. intros Hl. unfold get. psimp. rewrite getl_set by assumption. now rewrite Nat.eqb_refl. Qed.

Lemma set_nth_same (L : list sess) s0 : set_nth s0 (getl L s0) L = L.
Proof.
  revert s0. induction L as [|x r IH]; intros [|j]; cbn [set_nth nth]; auto. now rewrite IH.
Qed.

Lemma sess_eta (x : sess) : mkSess (live x) (closed x) (seqno x) (oref x) = x.
Proof. now destruct x. Qed.

Lemma sh_eta_set s s0 :
  s = mkSh (set_nth s0 (mkSess (live (get s s0)) (closed (get s s0)) (seqno (get s s0)) (oref (get s s0))) (sessions s))
           (cur_sess s) (activeSeqno s) (freeSeqno s) (freeq s) (running s) (mutex s) (destructed s) (panicked s).
Proof. rewrite sess_eta. unfold get. rewrite set_nth_same. now destruct s. Qed.

Ltac wts Ec :=
  psimp; rewrite ?Ec; cbn [f2w f3w bw zw law gcw qw mw kw curw locok b2z mz];
  rewrite ?Nat.eqb_refl; cbn [b2z]; try reflexivity; try lia.

Section Step2.
Variable N : Z.
Hypothesis HN : N < offset.
Variables (s : shared) (l : list thr) (i : nat) (t : thr).
Hypothesis HI : Inv N (mkSys s l).
Hypothesis Et : nth_error l i = Some t.

Let Hin := Hin l i t Et.

Lemma at_mx : mw (cur t) = 1 -> mz (mutex s) = 1.
Proof.
  intros E. pose proof (i_mx _ _ HI) as M. psimp.
  pose proof (sum_ge (fun u : thr => mw (cur u)) l t (fun u => mw_nonneg (cur u)) Hin) as G. cbn beta in G.
  destruct (mutex s); cbn [mz] in *; lia.
Qed.

Lemma qsum_nonneg : 0 <= sumZ (fun u : thr => qw (cur u)) l.
Proof. apply sum_nonneg. intros; apply qw_nonneg. Qed.

Lemma at_f2 s0 : cur t = Some (LFlush2 s0) ->
  live (get s s0) = sumZ (hw s0) l + sumZ (fun u : thr => bw s0 (cur u)) l /\ (s0 < activeSeqno s)%nat.
Proof.
  intros Ec. pose proof (i_loc _ _ HI t Hin) as L. psimp. rewrite Ec in L. cbn [locok] in L. psimp.
  split; [|exact L]. pose proof (i_live _ _ HI s0) as E. psimp.
  pose proof (F23_le1 N _ HI s0) as F. pose proof (F3_nonneg (mkSys s l) s0) as F3. psimp.
  pose proof (sum_ge (fun u : thr => f2w s0 (cur u)) l t (fun u => f2w_nonneg s0 (cur u)) Hin) as G.
  cbn beta in G. rewrite Ec in G. cbn [f2w] in G. rewrite Nat.eqb_refl in G. cbn [b2z] in G.
  destruct (Nat.ltb_spec s0 (activeSeqno s)); [|lia]. unfold offset in *. lia.
Qed.

Lemma at_f3 s0 : cur t = Some (LFlush3 s0) ->
  live (get s s0) = sumZ (hw s0) l + sumZ (fun u : thr => bw s0 (cur u)) l + offset + 1 /\ (s0 < activeSeqno s)%nat.
Proof.
  intros Ec. pose proof (i_loc _ _ HI t Hin) as L. psimp. rewrite Ec in L. cbn [locok] in L. psimp.
  split; [|exact L]. pose proof (i_live _ _ HI s0) as E. psimp.
  pose proof (F23_le1 N _ HI s0) as F. pose proof (F2_nonneg (mkSys s l) s0) as F2. psimp.
  pose proof (sum_ge (fun u : thr => f3w s0 (cur u)) l t (fun u => f3w_nonneg s0 (cur u)) Hin) as G.
  cbn beta in G. rewrite Ec in G. cbn [f3w] in G. rewrite Nat.eqb_refl in G. cbn [b2z] in G.
  destruct (Nat.ltb_spec s0 (activeSeqno s)); [|lia]. unfold offset in *. lia.
Qed.

(** a thread inside an operation leaves room for one more token *)
Lemma acq_room s0 : curw (cur t) = 1 -> bw s0 (cur t) = 0 -> live (get s s0) + 1 <= offset ->
  live (get s s0) + 1 <> offset /\ live (get s s0) <> offset.
Proof.
  intros Ec Eb Hle. split; [|lia]. intros E.
  pose proof (i_live _ _ HI s0) as L. pose proof (hold_bound N _ HI s0) as B. psimp.
  pose proof (sum_le_at (fun u : thr => bw s0 (cur u)) (fun u : thr => curw (cur u)) l t
                (fun u => bw_le_curw s0 (cur u)) Hin) as G. cbn beta in G.
  pose proof (F23_le1 N _ HI s0) as F. pose proof (F2_nonneg (mkSys s l) s0) as F2.
  pose proof (F3_nonneg (mkSys s l) s0) as F3. pose proof (HW_nonneg (mkSys s l) s0) as Hn.
  pose proof (B_nonneg (mkSys s l) s0) as Bn. psimp.
  destruct (Nat.ltb_spec s0 (activeSeqno s)) as [A|A].
  - unfold offset in *. lia.
  - destruct (F23_zero N _ HI s0 A) as [Z2 Z3]. psimp. rewrite Z2, Z3 in L. unfold offset in *. lia.
Qed.

(** an accessor that is backing off: its increment is still in the counter *)
Lemma at_back s0 : cur t = Some (LAcqBack s0) ->
  (s0 <= activeSeqno s)%nat /\ 1 <= sumZ (fun u : thr => bw s0 (cur u)) l /\
  0 <= live (get s s0) - 1 /\ live (get s s0) - 1 <> offset - 1 /\
  (live (get s s0) - 1 = offset -> sumZ (fun u : thr => bw s0 (cur u)) l = 1).
Proof.
  intros Ec. pose proof (i_loc _ _ HI t Hin) as L. psimp. rewrite Ec in L. cbn [locok] in L. psimp.
  split; [exact L|].
  pose proof (sum_ge (fun u : thr => bw s0 (cur u)) l t (fun u => bw_nonneg s0 (cur u)) Hin) as G.
  cbn beta in G. rewrite Ec in G. cbn [bw] in G. rewrite Nat.eqb_refl in G. cbn [b2z] in G.
  split; [exact G|].
  pose proof (i_live _ _ HI s0) as E. pose proof (hold_lt N HN _ HI s0) as B. psimp.
  pose proof (F23_le1 N _ HI s0) as F. pose proof (F2_nonneg (mkSys s l) s0) as F2.
  pose proof (F3_nonneg (mkSys s l) s0) as F3. pose proof (HW_nonneg (mkSys s l) s0) as Hn. psimp.
  assert (A : 0 <= live (get s s0) - 1 /\ live (get s s0) - 1 <> offset - 1).
  { destruct (Nat.ltb_spec s0 (activeSeqno s)) as [A|A].
    - unfold offset in *. lia.
    - destruct (F23_zero N _ HI s0 A) as [Z2 Z3]. psimp. rewrite Z2, Z3 in E. unfold offset in *. lia. }
  destruct A as [A1 A2]. split; [exact A1|]. split; [exact A2|].
  intros E1. pose proof (live_off1 N HN _ HI s0) as O. psimp. lia.
Qed.

(** a finished Release chain: nothing but the mutex can change *)
Lemma finish_ctl k s' p' r :
  mw (cur t) = kw k -> gcw (cur t) = 0 ->
  (forall x, f2w x (cur t) = 0) -> (forall x, f3w x (cur t) = 0) -> (forall x, bw x (cur t) = 0) ->
  (forall x, zw x (cur t) = 0) -> (forall x, law x (cur t) = 0) -> curw (cur t) = 1 ->
  (ready s = true -> running s = true \/ 1 <= sumZ (fun u : thr => qw (cur u)) l - qw (cur t)) ->
  finish k (pers_of t) s None = (s', p', r) ->
  Inv N (mkSys s' (upd_th i (finish_seg _ _ _ _ t (todo t) p' r) l)).
Proof.
  intros Hm Hg H2 H3 Hb Hz Hla Hc Hr E. pose proof (i_cs _ _ HI) as Hcs. psimp.
  destruct k; cbn [finish] in E; inversion E; subst s' p' r; clear E; psimp; cbn [kw] in Hm.
  - replace s with (mkSh (sessions s) (cur_sess s) (activeSeqno s) (freeSeqno s) (freeq s) (running s) (mutex s)
                         (destructed s) (panicked s)) at 1 by (now destruct s).
    apply (Inv_ctl N s l i t _ HI Et); auto; unfold ww in *; psimp; cbn [f2w f3w bw zw law gcw qw mw curw locok]; try lia; auto.
    intros R _. destruct (Hr R); [now left|right; lia].
  - replace s with (mkSh (sessions s) (cur_sess s) (activeSeqno s) (freeSeqno s) (freeq s) (running s) (mutex s)
                         (destructed s) (panicked s)) at 1 by (now destruct s).
    apply (Inv_ctl N s l i t _ HI Et); auto; unfold ww in *; psimp; cbn [f2w f3w bw zw law gcw qw mw curw locok]; try lia; auto.
    intros R _. destruct (Hr R); [now left|right; lia].
  - pose proof (at_mx Hm).
    apply (Inv_ctl N s l i t _ HI Et); auto; unfold ww in *; psimp; cbn [f2w f3w bw zw law gcw qw mw curw locok mz]; try lia; auto.
    intros R _. destruct (Hr R); [now left|right; lia].
Qed.

(** Release: the decrement and its tests, run on a state whose counter of s0 stands at v0 *)
Lemma rel_dec_pres s0 k p rest v0 s' p' r :
  (s0 <= activeSeqno s)%nat ->
  (forall x, x <> s0 -> Z.of_nat (count_occ Nat.eq_dec p x) = hw x t) ->
  (forall x, x <> s0 -> f2w x (cur t) = 0) -> (forall x, x <> s0 -> f3w x (cur t) = 0) ->
  (forall x, x <> s0 -> bw x (cur t) = 0) ->
  v0 - 1 = live (get s s0) + (Z.of_nat (count_occ Nat.eq_dec p s0) - hw s0 t)
           + offset * f2w s0 (cur t) - f3w s0 (cur t) - bw s0 (cur t) ->
  (forall x, zw x (cur t) = 0) -> (forall x, law x (cur t) = 0) -> gcw (cur t) = 0 -> qw (cur t) = 0 ->
  mw (cur t) = kw k ->
  Z.of_nat (length p) + Z.of_nat (length rest) + 1 <= ww t ->
  0 <= v0 - 1 -> v0 - 1 <> offset - 1 ->
  (v0 - 1 = offset -> sumZ (fun u : thr => bw s0 (cur u)) l - bw s0 (cur t) = 0) ->
  (v0 - 1 <> offset -> live (get s s0) = offset + sumZ (fun u : thr => bw s0 (cur u)) l ->
     v0 - 1 - live (get s s0) = - bw s0 (cur t)) ->
  rel_dec s0 k p (mkSh (set_nth s0 (mkSess v0 (closed (get s s0)) (seqno (get s s0)) (oref (get s s0))) (sessions s))
                       (cur_sess s) (activeSeqno s) (freeSeqno s) (freeq s) (running s) (mutex s)
                       (destructed s) (panicked s)) = (s', p', r) ->
  Inv N (mkSys s' (upd_th i (finish_seg _ _ _ _ t rest p' r) l)).
Proof.
  intros Hs0 Hh H2 H3 Hb Hv Hz Hla Hg Hq Hm Hw Hp0 Hp1 Hc1 Hc2 E.
  pose proof (i_len _ _ HI) as Hlen. pose proof (i_cs _ _ HI) as Hcs. psimp.
  assert (Hr : (s0 < length (sessions s))%nat) by lia.
  unfold rel_dec in E. rewrite (get_mk_set s0 _ _ _ _ _ _ _ _ _ _ Hr) in E.
  cbn [live closed seqno oref] in E. unfold upd_sess, set_sessions in E. psimp. rewrite set_nth_twice in E.
  destruct (Z.eqb_spec (v0 - 1) offset) as [Ev|Ev].
  - inversion E; subst s' p' r; clear E. psimp.
    apply (Inv_live N s l i t _ HI Et s0 (v0 - 1) (mutex s)); auto; unfold hw, ww in *; psimp;
      cbn [f2w f3w bw zw law gcw qw mw curw locok]; rewrite ?Nat.eqb_refl; cbn [b2z]; auto; try lia.
    + intros x Ne. rewrite H2 by assumption. reflexivity.
    + intros x Ne. rewrite H3 by assumption. reflexivity.
    + intros x Ne. rewrite Hb by assumption. reflexivity.
    + intros x Ne. rewrite Hz. destruct (Nat.eqb_spec s0 x); [congruence|reflexivity].
  - destruct (Z.ltb_spec (v0 - 1) 0) as [|_]; [lia|].
    destruct (Z.eqb_spec (v0 - 1) (offset - 1)) as [|_]; [lia|]. cbn [orb] in E.
    specialize (Hc2 Ev).
    destruct k; cbn [finish] in E; psimp; inversion E; subst s' p' r; clear E; psimp; cbn [kw] in Hm.
    + apply (Inv_live N s l i t _ HI Et s0 (v0 - 1) (mutex s)); auto; unfold hw, ww in *; psimp;
        cbn [f2w f3w bw zw law gcw qw mw curw locok]; auto; try lia.
      * intros x Ne. now rewrite H2.
      * intros x Ne. now rewrite H3.
      * intros x Ne. now rewrite Hb.
    + apply (Inv_live N s l i t _ HI Et s0 (v0 - 1) (mutex s)); auto; unfold hw, ww in *; psimp;
        cbn [f2w f3w bw zw law gcw qw mw curw locok]; auto; try lia.
      * intros x Ne. now rewrite H2.
      * intros x Ne. now rewrite H3.
      * intros x Ne. now rewrite Hb.
    + pose proof (at_mx Hm).
      apply (Inv_live N s l i t _ HI Et s0 (v0 - 1) None); auto; unfold hw, ww in *; psimp;
        cbn [f2w f3w bw zw law gcw qw mw curw locok mz]; auto; try lia.
      * intros x Ne. now rewrite H2.
      * intros x Ne. now rewrite H3.
      * intros x Ne. now rewrite Hb.
Qed.

(** try-lock and SeekFirst of doCleanup *)
Lemma try_clean_pres k s' p' r :
  mw (cur t) = kw k -> gcw (cur t) = 0 -> qw (cur t) = 1 ->
  (forall x, f2w x (cur t) = 0) -> (forall x, f3w x (cur t) = 0) -> (forall x, bw x (cur t) = 0) ->
  (forall x, zw x (cur t) = 0) -> (forall x, law x (cur t) = 0) -> curw (cur t) = 1 ->
  try_clean k (pers_of t) s = (s', p', r) ->
  Inv N (mkSys s' (upd_th i (finish_seg _ _ _ _ t (todo t) p' r) l)).
Proof.
  intros Hm Hg Hq H2 H3 Hb Hz Hla Hc E. unfold try_clean in E.
  destruct (running s) eqn:Er.
  - apply (finish_ctl k s' p' r); auto.
  - psimp. destruct (freeq s) as [|c q] eqn:Eq; inversion E; subst s' p' r; clear E; psimp; rewrite <- Eq.
    + apply (Inv_ctl N s l i t _ HI Et true (mutex s)); auto; unfold ww in *; psimp;
        cbn [f2w f3w bw zw law gcw qw mw curw locok b2z]; auto; try lia. rewrite Er. cbn [b2z]. lia.
    + apply (Inv_ctl N s l i t _ HI Et true (mutex s)); auto; unfold ww in *; psimp;
        cbn [f2w f3w bw zw law gcw qw mw curw locok b2z]; auto; try lia.
      * rewrite Er. cbn [b2z]. lia.
      * rewrite Eq. now left.
Qed.

End Step2.


Lemma offset_pos : 2 < offset.
Proof. unfold offset. lia. Qed.

Ltac side Ec Etd :=
  unfold ww, hw; psimp; rewrite ?Ec, ?Etd;
  cbn [f2w f3w bw zw law gcw qw mw kw curw locok b2z mz length count_occ]; rewrite ?Nat.eqb_refl; cbn [b2z];
  auto; try lia; try (intros _ [?|?]; [now left|right; lia]).

Ltac get_tuple E :=
  match goal with
  | |- context [rel_dec ?a ?b ?c ?d] => destruct (rel_dec a b c d) as [[s' p'] r] eqn:E
  | |- context [try_clean ?a ?b ?c] => destruct (try_clean a b c) as [[s' p'] r] eqn:E
  | |- context [finish ?a ?b ?c ?d] => destruct (finish a b c d) as [[s' p'] r] eqn:E
  end.

Theorem Inv_step N (HN : N < offset) (y : sysU) i : Inv N y -> Inv N (stepS true y i).
Proof.
  intros H. unfold stepS, step_at. destruct y as [s l]. psimp.
  destruct (nth_error l i) as [t|] eqn:Et; [|exact H].
  assert (Hin : In t l) by (eapply nth_error_In; eauto).
  pose proof (i_loc _ _ H t Hin) as L. psimp. pose proof offset_pos as Op.
  destruct (cur t) as [lc|] eqn:Ec.
  - unfold blocked. destruct lc as [s0|s0|s0 k|s0 k|s0 k|c k|k|k|s0 r0|s0|s0]; cbn [step]; cbn [locok] in L; psimp.
    + (* Acquire: increment *)
      pose proof (B_nonneg (mkSys s l) s0) as Bn. psimp.
      destruct (Z.ltb_spec offset (live (get s s0) + 1)) as [Hlt|Hle].
      * (* the session is closed: the increment stays in the counter until the back-off *)
        unfold upd_sess, set_sessions.
        apply (Inv_live N s l i t _ H Et s0 (live (get s s0) + 1) (mutex s)); auto; side Ec Ec.
        intros x Ne. destruct (Nat.eqb_spec s0 x); [congruence|reflexivity].
      * destruct (acq_room N HN s l i t H Et s0) as [A B]; [rewrite Ec; reflexivity|rewrite Ec; reflexivity|lia|].
        unfold upd_sess, set_sessions.
        apply (Inv_live N s l i t _ H Et s0 (live (get s s0) + 1) (mutex s)); auto; side Ec Ec.
        -- intros x Ne. destruct (Nat.eq_dec s0 x); [congruence|reflexivity].
        -- destruct (Nat.eq_dec s0 s0); [lia|congruence].
    + (* Acquire: back off through Release *)
      destruct (at_back N HN s l i t H Et s0 Ec) as (A0 & A1 & A2 & A3 & A4).
      get_tuple E. rewrite (sh_eta_set s s0) in E.
      apply (rel_dec_pres N s l i t H Et s0 KRetry (pers_of t) (todo t) (live (get s s0)) s' p' r);
        auto; side Ec Ec.
      intros x Ne. destruct (Nat.eqb_spec s0 x); [congruence|reflexivity].
    + (* closed latch *)
      pose proof (i_cs _ _ H) as Hcs. psimp.
      unfold upd_sess, set_sessions.
      destruct (Nat.eqb_spec (S (closed (get s s0))) 1) as [Ez|Ez].
      * apply (Inv_latch N HN s l i t _ H Et s0 k (mutex s)); auto; side Ec Ec.
        intros x. rewrite (Nat.eqb_sym s0 x). destruct (Nat.eqb_spec x s0); cbn [andb b2z]; [|reflexivity].
        destruct (Nat.eqb_spec (closed (get s s0)) 0); [reflexivity|lia].
      * assert (Hla : forall x, 0 = if Nat.eqb x s0 && Nat.eqb (closed (get s s0)) 0 then 1 else 0).
        { intros x. destruct (Nat.eqb_spec (closed (get s s0)) 0); [lia|]. now rewrite andb_false_r. }
        destruct k; cbn [finish]; psimp.
        -- apply (Inv_latch N HN s l i t _ H Et s0 KDone (mutex s)); auto; side Ec Ec.
        -- apply (Inv_latch N HN s l i t _ H Et s0 KRetry (mutex s)); auto; side Ec Ec.
        -- assert (M : mz (mutex s) = 1) by (apply (at_mx N s l i t H Et); rewrite Ec; reflexivity).
           apply (Inv_latch N HN s l i t _ H Et s0 KUnlock None); auto; side Ec Ec.
    + (* queue insert *)
      apply (Inv_insert N HN s l i t _ H Et s0 k); auto; side Ec Ec.
    + (* try-lock *)
      get_tuple E.
      apply (try_clean_pres N s l i t H Et k s' p' r); auto; side Ec Ec.
    + (* doCleanup iteration *)
      assert (Hrun : running s = true) by (apply (at_gc N _ H t Hin); rewrite Ec; reflexivity).
      destruct (Nat.eqb_spec (seqno (get s c)) (S (freeSeqno s))) as [Eq|Nq].
      * match goal with |- context [first_after ?a ?b] => destruct (first_after a b) as [c'|] eqn:Ef end.
        -- unfold first_after in Ef. apply find_some in Ef. destruct Ef as [Ef _]. psimp.
           apply (Inv_destruct N s l i t _ H Et c k); auto; side Ec Ec.
           intros s2 _ Hq. rewrite Hq. exact Ef.
        -- apply (Inv_destruct N s l i t _ H Et c k); auto; side Ec Ec.
      * replace s with (mkSh (sessions s) (cur_sess s) (activeSeqno s) (freeSeqno s) (freeq s) (running s) (mutex s)
                         (destructed s) (panicked s)) at 1 by (now destruct s).
        apply (Inv_ctl N s l i t _ H Et); auto; side Ec Ec.
    + (* try-lock reset *)
      assert (Hrun : running s = true) by (apply (at_gc N _ H t Hin); rewrite Ec; reflexivity).
      pose proof (qsum_nonneg l) as Qn.
      apply (Inv_ctl N s l i t _ H Et false (mutex s)); auto; side Ec Ec.
      rewrite Hrun. cbn [b2z]. lia.
    + (* re-examination of the queue *)
      assert (Hfin : ready s = false -> forall s' p' r, finish k (pers_of t) s None = (s', p', r) ->
                Inv N (mkSys s' (upd_th i (finish_seg _ _ _ _ t (todo t) p' r) l))).
      { intros Hnr s' p' r E. apply (finish_ctl N s l i t H Et k s' p' r); auto; side Ec Ec.
        rewrite Hnr. discriminate. }
      unfold ready in Hfin. destruct (freeq s) as [|c q] eqn:Eq.
      * get_tuple E. now apply Hfin.
      * destruct (Nat.eqb (seqno (get s c)) (S (freeSeqno s))) eqn:Er.
        -- get_tuple E. apply (try_clean_pres N s l i t H Et k s' p' r); auto; side Ec Ec.
        -- get_tuple E. now apply Hfin.
    + (* Flush: swap *)
      apply (Inv_flush1 N HN s l i t _ H Et s0 r0); auto; side Ec Ec.
    + (* Flush: add offset+1 *)
      destruct (at_f2 N s l i t H Et s0 Ec) as [Lv _].
      pose proof (hold_lt N HN _ H s0) as Hlt. pose proof (HW_nonneg (mkSys s l) s0) as Hn.
      pose proof (B_nonneg (mkSys s l) s0) as Bn. psimp.
      unfold upd_sess, set_sessions.
      apply (Inv_live N s l i t _ H Et s0 (live (get s s0) + offset + 1) (mutex s)); auto; side Ec Ec.
      * intros x Ne. destruct (Nat.eqb_spec s0 x); [congruence|reflexivity].
      * intros x Ne. destruct (Nat.eqb_spec s0 x); [congruence|reflexivity].
    + (* Flush: Release *)
      destruct (at_f3 N s l i t H Et s0 Ec) as [Lv _].
      pose proof (HW_nonneg (mkSys s l) s0) as Hn. pose proof (B_nonneg (mkSys s l) s0) as Bn. psimp.
      get_tuple E. rewrite (sh_eta_set s s0) in E.
      apply (rel_dec_pres N s l i t H Et s0 KUnlock (pers_of t) (todo t) (live (get s s0)) s' p' r);
        auto; side Ec Ec.
      * intros x Ne. destruct (Nat.eqb_spec s0 x); [congruence|reflexivity].
  - destruct (todo t) as [|o rest] eqn:Etd; [exact H|].
    unfold blocked_begin. destruct o as [|k0|r0]; cbn [begin].
    + (* Acquire: load the session *)
      pose proof (i_cs _ _ H) as Hcs. psimp.
      replace s with (mkSh (sessions s) (cur_sess s) (activeSeqno s) (freeSeqno s) (freeq s) (running s) (mutex s)
                       (destructed s) (panicked s)) at 1 by (now destruct s).
      apply (Inv_ctl N s l i t _ H Et); auto; side Ec Etd.
    + (* Release *)
      destruct (nth_error (pers_of t) k0) as [s0|] eqn:En.
      * assert (Hh : 1 <= sumZ (hw s0) l).
        { apply (held_pos (mkSys s l) t s0 Hin). eapply nth_error_In; eauto. }
        destruct (held_live N HN _ H s0 Hh) as (A & A' & B & C).
        pose proof (live_off1 N HN _ H s0) as O1. pose proof (F3_nonneg (mkSys s l) s0) as F3n.
        pose proof (B_nonneg (mkSys s l) s0) as Bn. psimp.
        pose proof (count_remove_nth (pers_of t) k0 s0) as Cn.
        pose proof (length_remove_nth (pers_of t) k0 s0 En) as Ln.
        get_tuple E. rewrite (sh_eta_set s s0) in E.
        apply (rel_dec_pres N s l i t H Et s0 KDone (firstn k0 (pers_of t) ++ skipn (S k0) (pers_of t)) rest
                 (live (get s s0)) s' p' r); auto; side Ec Etd.
        -- intros x Ne. rewrite (Cn x En). destruct (Nat.eqb_spec s0 x); [congruence|lia].
        -- rewrite (Cn s0 En), Nat.eqb_refl. lia.
      * replace s with (mkSh (sessions s) (cur_sess s) (activeSeqno s) (freeSeqno s) (freeq s) (running s) (mutex s)
                         (destructed s) (panicked s)) at 1 by (now destruct s).
        apply (Inv_ctl N s l i t _ H Et); auto; side Ec Etd.
    + (* Flush: lock *)
      pose proof (i_cs _ _ H) as Hcs. psimp.
      destruct (mutex s) eqn:Em; [exact H|].
      apply (Inv_ctl N s l i t _ H Et (running s) (Some i)); auto; side Ec Etd.
      rewrite Em. reflexivity.
Qed.

(** * Initial state *)

Lemma init_cur progs (t : thr) : In t (ths (init progs : sysU)) -> cur t = None /\ pers_of t = [].
Proof.
  unfold init. cbn [ths]. intros H. apply in_map_iff in H. destruct H as [p [<- _]]. split; reflexivity.
Qed.

Lemma init_ww progs :
  sumZ ww (map (fun p => mkThread p None (@nil nat) [] : thr) progs) = Z.of_nat (length (concat progs)).
Proof.
  induction progs as [|p r IH]; cbn [map sumZ concat]; [reflexivity|].
  rewrite IH, app_length. unfold ww. cbn [pers_of todo cur curw length]. lia.
Qed.

Lemma init_get x : get init_sh x = dflt.
Proof. unfold get, init_sh. cbn [sessions]. destruct x as [|[|x]]; reflexivity. Qed.

Theorem Inv_init progs : Inv (Z.of_nat (length (concat progs))) (init progs).
Proof.
  assert (Z0 : forall f : thr -> Z, (forall u : thr, cur u = None -> pers_of u = [] -> f u = 0) ->
               sumZ f (ths (init progs : sysU)) = 0).
  { intros f Hf. apply sum_zero. intros u Hu. destruct (init_cur _ _ Hu). auto. }
  constructor; cbn [sh init]; rewrite ?init_get; cbn [live closed seqno oref]; try reflexivity.
  - intros x. rewrite init_get. cbn [seqno init_sh activeSeqno]. destruct x; reflexivity.
  - pose proof (init_ww progs) as W. unfold init. cbn [ths]. unfold pers in *. lia.
  - intros x. rewrite init_get. cbn [live init_sh activeSeqno].
    rewrite !Z0; [destruct x; cbn; lia| | | |]; intros u Ec Ep; unfold hw; rewrite ?Ec, ?Ep; reflexivity.
  - intros t Ht. destruct (init_cur _ _ Ht) as [-> _]. exact I.
  - rewrite Z0; [reflexivity|]. intros u -> _. reflexivity.
  - intros x. rewrite init_get. cbn [live]. pose proof offset_pos. lia.
  - intros x. rewrite init_get. cbn [closed]. rewrite (Z0 (fun t : thr => zw x (cur t))); [lia|]. intros u -> _. reflexivity.
  - intros x. rewrite init_get. cbn [closed Nat.eqb init_sh freeq freeSeqno count_occ].
    rewrite Z0; [destruct x; cbn; lia|]. intros u -> _. reflexivity.
  - rewrite Z0; [reflexivity|]. intros u -> _. reflexivity.
  - cbn. discriminate.
  - cbn. intros q r [].
Qed.

Theorem Inv_reach progs sched : Z.of_nat (length (concat progs)) < offset ->
  Inv (Z.of_nat (length (concat progs))) (runS true (init progs) sched).
Proof.
  intros HN. unfold runS. apply (Inv_run _ _ _ _ _ _ _ _ _ (Inv (Z.of_nat (length (concat progs))))).
  - intros y i. apply Inv_step. exact HN.
  - apply Inv_init.
Qed.

(** * The theorems *)

Lemma quiescent_cur (y : sysU) : quiescent shared local pers op result y = true ->
  forall t : thr, In t (ths y) -> cur t = None.
Proof.
  unfold quiescent. intros H t Hin. rewrite forallb_forall in H. specialize (H t Hin).
  unfold th_finished in H. unfold pers in *. destruct (cur t); [discriminate|reflexivity].
Qed.

(** C16: safety.  Side condition: fewer than [offset] = 2^30-1 operations in all programs together
    (so that no counter can reach [offset] through accessors alone). *)
Theorem barrier_safe : forall progs sched,
  Z.of_nat (length (concat progs)) < offset ->
  let y := runS true (init progs) sched in
  panicked (sh y) = false /\
  (* destructors ran in seqno order 1,2,..,k, each exactly once *)
  map fst (destructed (sh y)) = seq 1 (length (destructed (sh y))) /\
  (* each with the object attached by the flush that has that seqno *)
  (forall q r, In (q, r) (destructed (sh y)) ->
     exists s, (s < length (sessions (sh y)))%nat /\ seqno (get (sh y) s) = q /\ oref (get (sh y) s) = r /\ q <> 0%nat) /\
  (* a held token keeps its session and every later-flushed session undestructed *)
  (forall t s, In t (ths y) -> In s (pers_of t) ->
     forall q r, In (q, r) (destructed (sh y)) ->
       seqno (get (sh y) s) = 0%nat \/ (q < seqno (get (sh y) s))%nat) /\
  (length (destructed (sh y)) <= activeSeqno (sh y))%nat.
Proof.
  intros progs sched HN y. pose proof (Inv_reach progs sched HN) as H. fold y in H. clearbody y.
  unfold sysT, pers in *. set (N := Z.of_nat (length (concat progs))) in *. clearbody N.
  assert (Hlen : length (destructed (sh y)) = freeSeqno (sh y)).
  { rewrite <- (map_length fst), (i_dseq _ _ H). apply seq_length. }
  pose proof (i_fa _ _ H) as Hfa.
  split; [exact (i_panic _ _ H)|]. split; [rewrite Hlen; exact (i_dseq _ _ H)|].
  split; [|split; [|lia]].
  - intros q r Hqr. destruct (i_dlog _ _ H q r Hqr) as [Hq Ho]. exists (pred q).
    split; [rewrite (i_len _ _ H); lia|]. split; [|split; [exact Ho|lia]].
    rewrite (seqno_flushed N _ H); lia.
  - intros t s Ht Hs q r Hqr. destruct (i_dlog _ _ H q r Hqr) as [Hq _].
    rewrite (i_seq _ _ H s). destruct (Nat.ltb_spec s (activeSeqno (sh y))) as [L|L]; [right|now left].
    destruct (le_lt_dec (freeSeqno (sh y)) s) as [|Hlt]; [lia|exfalso].
    pose proof (held_pos y t s Ht Hs) as Hp. destruct (held_live N HN y H s Hp) as [Hno _].
    apply Hno, (closed_off N y H). intros C. pose proof (i_latch _ _ H s) as E. rewrite C in E. cbn [Nat.eqb] in E.
    pose proof (LA_nonneg y s). destruct (Nat.ltb_spec s (freeSeqno (sh y))); lia.
Qed.

(** C17: liveness at quiescence *)
Theorem barrier_live : forall progs sched,
  Z.of_nat (length (concat progs)) < offset ->
  let y := runS true (init progs) sched in
  quiescent shared local pers op result y = true ->
  (forall t, In t (ths y) -> pers_of t = []) ->
  freeq (sh y) = [] /\ length (destructed (sh y)) = activeSeqno (sh y).
Proof.
  intros progs sched HN y Hq Hp. pose proof (Inv_reach progs sched HN) as H. fold y in H.
  pose proof (quiescent_cur y Hq) as Hc. clearbody y.
  unfold sysT, pers in *. set (N := Z.of_nat (length (concat progs))) in *. clearbody N.
  assert (Hlen : length (destructed (sh y)) = freeSeqno (sh y)).
  { rewrite <- (map_length fst), (i_dseq _ _ H). apply seq_length. }
  pose proof (i_fa _ _ H) as Hfa.
  assert (Z0 : forall f : option local -> Z, f None = 0 -> sumZ (fun t : thr => f (cur t)) (ths y) = 0).
  { intros f Hf. apply sum_zero. intros u Hu. cbn beta. now rewrite (Hc u Hu). }
  assert (Hfree : freeSeqno (sh y) = activeSeqno (sh y)).
  { destruct (Nat.eq_dec (freeSeqno (sh y)) (activeSeqno (sh y))) as [|Ne]; [assumption|exfalso].
    set (f := freeSeqno (sh y)) in *.
    assert (Lf : live (get (sh y) f) = offset).
    { rewrite (i_live _ _ H f). rewrite (Z0 (f2w f)), (Z0 (f3w f)), (Z0 (bw f)) by reflexivity.
      rewrite sum_zero; [|intros u Hu; unfold hw; now rewrite (Hp u Hu)].
      destruct (Nat.ltb_spec f (activeSeqno (sh y))); lia. }
    pose proof (i_cl1 _ _ H f Lf) as C. rewrite (Z0 (zw f)) in C by reflexivity.
    pose proof (i_latch _ _ H f) as E. rewrite (Z0 (law f)) in E by reflexivity. fold f in E.
    rewrite Nat.ltb_irrefl in E. destruct (Nat.eqb_spec (closed (get (sh y) f)) 0); [lia|].
    assert (Hin : In f (freeq (sh y))) by (apply (count_occ_In Nat.eq_dec); lia).
    pose proof (i_sorted _ _ H) as Hs. pose proof (i_resp _ _ H) as R. unfold ready in R.
    pose proof (queued N HN y H) as Q.
    destruct (freeq (sh y)) as [|h q] eqn:Eq; [destruct Hin|].
    assert (h = f).
    { destruct (Q h (or_introl eq_refl)) as (_ & _ & Hge & _). fold f in Hge.
      destruct Hin as [|Hin]; [assumption|]. destruct Hs as [Hs _]. specialize (Hs f Hin). lia. }
    subst h. rewrite (seqno_flushed N y H f) in R by (fold f in Hfa; lia). fold f in R. rewrite Nat.eqb_refl in R.
    pose proof (i_run _ _ H) as G. rewrite (Z0 gcw) in G by reflexivity.
    rewrite (Z0 qw) in R by reflexivity.
    destruct (R eq_refl) as [A|A]; [rewrite A in G; cbn [b2z] in G|]; lia. }
  split; [|lia].
  destruct (freeq (sh y)) as [|h q] eqn:Eq; [reflexivity|exfalso].
  assert (Hin : In h (freeq (sh y))) by (rewrite Eq; now left).
  destruct (queued N HN y H h Hin) as (_ & A & B & _). lia.
Qed.

Print Assumptions lost_wakeup_refuted.
Print Assumptions barrier_safe.
Print Assumptions barrier_live.
