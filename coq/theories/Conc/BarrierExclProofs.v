(** C16, exclusiveness of destruction: proofs of the statements of BarrierExclStmts.v from the
    invariant of BarrierProofs.v (field [i_run]: the number of goroutines inside doCleanup equals
    the try-lock flag). *)
From Coq Require Import List Arith ZArith Lia Bool.
From NV Require Import Base.Sched Conc.Barrier Conc.BarrierProofs Conc.BarrierExclStmts.
Import ListNotations.
Open Scope Z_scope.

(** * Sums of non-negative weights over the thread list *)

Lemma sum_two (f : thr -> Z) l i j a b :
  (forall u, 0 <= f u) -> i <> j -> nth_error l i = Some a -> nth_error l j = Some b ->
  f a + f b <= sumZ f l.
Proof.
  intros Hf. revert i j. induction l as [|x r IH]; intros i j Hne Ha Hb.
  - destruct i; discriminate Ha.
  - cbn [sumZ]. pose proof (Hf x) as Hx. destruct i as [|i]; destruct j as [|j]; cbn [nth_error] in Ha, Hb.
    + congruence.
    + inversion Ha; subst x. apply nth_error_In in Hb.
      pose proof (sum_ge f r b Hf Hb) as G. lia.
    + inversion Hb; subst x. apply nth_error_In in Ha.
      pose proof (sum_ge f r a Hf Ha) as G. lia.
    + assert (Hne' : i <> j) by congruence.
      pose proof (IH i j Hne' Ha Hb) as G. lia.
Qed.

Lemma sum_pos_ex (f : thr -> Z) l :
  1 <= sumZ f l -> exists i t, nth_error l i = Some t /\ 1 <= f t.
Proof.
  induction l as [|x r IH]; cbn [sumZ]; intros Hs; [lia|].
  destruct (Z_le_gt_dec 1 (f x)) as [Hx|Hx].
  - exists 0%nat, x. split; [reflexivity|exact Hx].
  - destruct IH as (i & t & Hi & Ht); [lia|]. exists (S i), t. split; assumption.
Qed.

Lemma gcw_in_cleanup o : gcw o = if in_cleanup o then 1 else 0.
Proof. destruct o as [[]|]; reflexivity. Qed.

(** * At most one goroutine inside doCleanup, and exactly when the flag is set *)

Lemma one_cleaner_inv N (y : sysU) : Inv N y ->
  (forall i j ti tj, nth_error (ths y) i = Some ti -> nth_error (ths y) j = Some tj ->
     in_cleanup (cur ti) = true -> in_cleanup (cur tj) = true -> i = j) /\
  (running (sh y) = true <-> exists i t, nth_error (ths y) i = Some t /\ in_cleanup (cur t) = true).
Proof.
  intros H.
  pose proof (i_run _ _ H) as E.
  assert (Hf : forall u : thr, 0 <= gcw (cur u)) by (intros u; apply gcw_nonneg).
  split.
  - intros i j ti tj Hi Hj Ci Cj.
    destruct (Nat.eq_dec i j) as [Eij|Nij]; [exact Eij|exfalso].
    pose proof (sum_two (fun t : thr => gcw (cur t)) (ths y) i j ti tj Hf Nij Hi Hj) as G.
    cbn beta in G. rewrite E in G. rewrite !gcw_in_cleanup, Ci, Cj in G.
    pose proof (b2z_le1 (running (sh y))) as B. lia.
  - split.
    + intros R. rewrite R in E. cbn [b2z] in E.
      destruct (sum_pos_ex (fun t : thr => gcw (cur t)) (ths y)) as (i & t & Hi & Ht); [lia|].
      exists i, t. split; [exact Hi|]. cbn beta in Ht. rewrite gcw_in_cleanup in Ht.
      destruct (in_cleanup (cur t)); [reflexivity|lia].
    + intros (i & t & Hi & Ct).
      apply (at_gc _ y H t); [eapply nth_error_In; exact Hi|].
      rewrite gcw_in_cleanup, Ct. reflexivity.
Qed.

Theorem one_cleaner : stmt_one_cleaner.
Proof.
  intros progs sched HN. cbv zeta.
  exact (one_cleaner_inv _ _ (Inv_reach progs sched HN)).
Qed.

Print Assumptions one_cleaner.

(** * Only a doCleanup iteration invokes a destructor *)

Lemma finish_destr k (p : pers) s tok : destructed (fst (fst (finish k p s tok))) = destructed s.
Proof. destruct k; reflexivity. Qed.

Lemma rel_dec_destr s0 k (p : pers) s : destructed (fst (fst (rel_dec s0 k p s))) = destructed s.
Proof.
  unfold rel_dec.
  destruct (live (get s s0) - 1 =? offset); [reflexivity|].
  destruct ((live (get s s0) - 1 <? 0) || (live (get s s0) - 1 =? offset - 1)); [reflexivity|].
  rewrite finish_destr. reflexivity.
Qed.

Lemma try_clean_destr k (p : pers) s : destructed (fst (fst (try_clean k p s))) = destructed s.
Proof.
  unfold try_clean. destruct (running s); [apply finish_destr|].
  cbn [freeq]. destruct (freeq s); reflexivity.
Qed.

Lemma begin_destr tid o (p : pers) s : destructed (fst (fst (begin tid o p s))) = destructed s.
Proof.
  destruct o as [|k|r]; cbn [begin]; [reflexivity| |reflexivity].
  destruct (nth_error p k); [apply rel_dec_destr|reflexivity].
Qed.

Lemma step_destr tid l (p : pers) s :
  destructed (fst (fst (step true tid l p s))) = destructed s \/
  (exists c k, l = LClean c k) /\ exists e, destructed (fst (fst (step true tid l p s))) = destructed s ++ [e].
Proof.
  destruct l as [s0|s0|s0 k|s0 k|s0 k|c k|k|k|s0 r0|s0|s0]; cbn [step].
  - left. destruct (offset <? live (get s s0) + 1); reflexivity.
  - left. apply rel_dec_destr.
  - left. destruct (Nat.eqb (S (closed (get s s0))) 1); [reflexivity|]. rewrite finish_destr. reflexivity.
  - left. reflexivity.
  - left. apply try_clean_destr.
  - destruct (Nat.eqb (seqno (get s c)) (S (freeSeqno s))); [|left; reflexivity].
    right. split; [exists c, k; reflexivity|].
    exists (seqno (get s c), oref (get s c)).
    match goal with |- context [match ?x with Some _ => _ | None => _ end] => destruct x end; reflexivity.
  - left. reflexivity.
  - left. destruct (freeq s) as [|c q]; [apply finish_destr|].
    destruct (Nat.eqb (seqno (get s c)) (S (freeSeqno s))); [apply try_clean_destr|apply finish_destr].
  - left. reflexivity.
  - left. reflexivity.
  - left. apply rel_dec_destr.
Qed.

Lemma stepS_destr (y : sysU) i :
  destructed (sh (stepS true y i)) <> destructed (sh y) ->
  (exists t c k, nth_error (ths y) i = Some t /\ cur t = Some (LClean c k)) /\
  exists e, destructed (sh (stepS true y i)) = destructed (sh y) ++ [e].
Proof.
  unfold stepS, step_at, pers.
  destruct (nth_error (ths y) i) as [t|] eqn:Et; [|intros Hne; exfalso; apply Hne; reflexivity].
  destruct (cur t) as [lc|] eqn:Ec.
  - unfold blocked.
    pose proof (step_destr i lc (pers_of t) (sh y)) as D.
    destruct (step true i lc (pers_of t) (sh y)) as [[s' p'] r]. cbn [fst sh] in *.
    intros Hne. destruct D as [D|[(c & k & El) D]]; [exfalso; apply Hne; exact D|].
    split; [|exact D]. exists t, c, k. split; [reflexivity|]. rewrite Ec, El. reflexivity.
  - destruct (todo t) as [|o rest]; [intros Hne; exfalso; apply Hne; reflexivity|].
    destruct (blocked_begin o (sh y)); [intros Hne; exfalso; apply Hne; reflexivity|].
    pose proof (begin_destr i o (pers_of t) (sh y)) as D.
    destruct (begin i o (pers_of t) (sh y)) as [[s' p'] r]. cbn [fst sh] in *.
    intros Hne. exfalso; apply Hne; exact D.
Qed.

Theorem destructor_in_cleanup : stmt_destructor_in_cleanup.
Proof.
  intros progs sched i HN y y' Hne.
  pose proof (Inv_reach progs sched HN) as H. fold y in H.
  destruct (stepS_destr y i Hne) as [(t & c & k & Et & Ec) He].
  split; [exists t, c, k; split; assumption|]. split; [|exact He].
  apply (at_gc _ y H t); [eapply nth_error_In; exact Et|].
  rewrite Ec. reflexivity.
Qed.

Print Assumptions destructor_in_cleanup.

(** * Non-vacuity: a reachable state with a goroutine inside doCleanup and the flag set, whose next step
      invokes a destructor *)

Example cleaner_reached :
  let progs := [[OAcquire; OFlush 7; ORelease 0]; [OAcquire; ORelease 0; OFlush 8]] in
  let sc := [0; 0; 1; 1; 0; 0; 0; 0; 0; 1; 1; 1; 1]%nat in
  let y := runS true (init progs) sc in
  Z.of_nat (length (concat progs)) < offset /\
  (exists t, nth_error (ths y) 1 = Some t /\ cur t = Some (LClean 0 KDone) /\ in_cleanup (cur t) = true) /\
  running (sh y) = true /\ destructed (sh y) = [] /\
  destructed (sh (stepS true y 1)) = [(1%nat, 7%nat)].
Proof.
  vm_compute. split; [reflexivity|]. split; [|repeat split].
  eexists. split; [reflexivity|]. split; reflexivity.
Qed.
