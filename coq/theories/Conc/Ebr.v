(** Session-based safe memory reclamation as an abstract protocol (C04).  Events are the actions of
    accessors, deleters and the barrier; each event has a precondition which is exactly one of the
    obligations the code has to meet; an event whose precondition does not hold is ignored (it is not
    a behaviour of a conforming system).  The theorem says that in every state reachable through
    conforming events no accessor holds a reference to a freed node and nothing is freed twice.
      - Destruct's precondition is the access barrier's contract: C16 (Props/C16.v, conjunct 4:
        the destructor of flush q runs only when no token acquired before flush q is still held,
        and destructors run in order, once);
      - Flush's precondition "the nodes are unlinked at every level, and stay so" is what
        skiplist deleteNode + the repaired Insert4 provide (C13/C14 models, D9 was a violation);
      - Access's precondition "inside a token, on a node reached while holding it" is what Insert3 /
        Delete / DeleteNode / iterators / the repaired Delete2 provide (D8 was a violation). *)
From Coq Require Import List Arith Lia Bool.
Import ListNotations.

Inductive nstate := Linked | Unlinked | Flushed (q : nat) | Freed.

Record state := mkSt {
  nodes : nat -> nstate;
  flushes : nat;                          (* number of FlushSession calls so far (activeSeqno) *)
  destructed : nat;                       (* flushes 1..destructed have been destructed (freeSeqno) *)
  token : nat -> option nat;              (* per thread: value of [flushes] when its token was acquired *)
  refs : nat -> list nat;                 (* per thread: nodes it may dereference *)
  double_free : bool;                     (* ghost: a Freed node was freed again *)
  bad_access : bool                       (* ghost: an accessor dereferenced a Freed node *)
}.

Inductive event :=
| EAcquire (t : nat)
| ERelease (t : nat)
| EReach (t n : nat)          (* t obtains a pointer to n by following links while holding its token *)
| EAccess (t n : nat)         (* t dereferences n *)
| EInsert (n : nat)           (* a new node is published *)
| EUnlink (n : nat)           (* n has been removed from every level *)
| EFlush (ns : list nat)      (* FlushSession with the list ns *)
| EDestruct.                  (* the barrier runs the next destructor *)

Definition updf {A} (f : nat -> A) (k : nat) (v : A) : nat -> A := fun x => if Nat.eqb x k then v else f x.

Definition is_unlinked (s : nstate) : bool := match s with Unlinked => true | _ => false end.

(** no token acquired before flush q is still held: for every thread in [ts] *)
Definition no_earlier_token (st : state) (q : nat) (ts : list nat) : bool :=
  forallb (fun t => match token st t with Some k => Nat.leb q k | None => true end) ts.

Definition In_dec_thread (t : nat) (ts : list nat) : bool := existsb (Nat.eqb t) ts.
Fixpoint nodup_b (l : list nat) : bool :=
  match l with [] => true | x :: r => negb (existsb (Nat.eqb x) r) && nodup_b r end.

Section Run.
Variable threads : list nat.     (* the threads that exist *)

Definition step (st : state) (e : event) : state :=
  match e with
  | EAcquire t =>
    match token st t with
    | Some _ => st
    | None => mkSt (nodes st) (flushes st) (destructed st) (updf (token st) t (Some (flushes st)))
                   (updf (refs st) t []) (double_free st) (bad_access st)
    end
  | ERelease t =>
    mkSt (nodes st) (flushes st) (destructed st) (updf (token st) t None) (updf (refs st) t [])
         (double_free st) (bad_access st)
  | EReach t n =>
    (* reach discipline: only while holding a token, only nodes that are linked right now *)
    match token st t, nodes st n with
    | Some _, Linked => mkSt (nodes st) (flushes st) (destructed st) (token st) (updf (refs st) t (n :: refs st t))
                             (double_free st) (bad_access st)
    | _, _ => st
    end
  | EAccess t n =>
    (* access discipline: only nodes reached under the current token *)
    if existsb (Nat.eqb n) (refs st t) && In_dec_thread t threads then
      mkSt (nodes st) (flushes st) (destructed st) (token st) (refs st) (double_free st)
           (bad_access st || match nodes st n with Freed => true | _ => false end)
    else st
  | EInsert n => st   (* node ids are never reused; a fresh node is Linked from the start, see [init] *)
  | EUnlink n =>
    match nodes st n with
    | Linked => mkSt (updf (nodes st) n Unlinked) (flushes st) (destructed st) (token st) (refs st)
                     (double_free st) (bad_access st)
    | _ => st
    end
  | EFlush ns =>
    (* unlinked-before-flush: every node of the list is unlinked (and not yet flushed) *)
    if forallb (fun n => is_unlinked (nodes st n)) ns && nodup_b ns then
      let q := S (flushes st) in
      mkSt (fun x => if existsb (Nat.eqb x) ns then Flushed q else nodes st x) q (destructed st)
           (token st) (refs st) (double_free st) (bad_access st)
    else st
  | EDestruct =>
    (* barrier contract: in order, once, and only when no earlier token is held *)
    let q := S (destructed st) in
    if Nat.leb q (flushes st) && no_earlier_token st q threads then
      mkSt (fun x => match nodes st x with
                     | Flushed q' => if Nat.eqb q' q then Freed else nodes st x
                     | s => s
                     end)
           (flushes st) q (token st) (refs st) (double_free st) (bad_access st)
    else st
  end.

Definition run (st : state) (tr : list event) : state := fold_left step tr st.

End Run.

(** initial state: every node id is a (future or present) linked node; nothing flushed; no tokens *)
Definition init : state :=
  mkSt (fun _ => Linked) 0 0 (fun _ => None) (fun _ => []) false false.
