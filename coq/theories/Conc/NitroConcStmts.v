(** Statements about concurrent writers (C03), for ALL numbers of writers, programs and schedules. *)
From NV Require Import Base.Bytes Base.Sched Mvcc.Store Mvcc.Ops Mvcc.Spec Mvcc.InvDefs Mvcc.Stmts Conc.NitroConc.
From Coq Require Import List ZArith Bool.
Import ListNotations.
Open Scope N_scope.

Section Stmts.
Variable kcmp : list N -> list N -> comparison.

Definition to_spec_op (o : NitroConc.op) : Ops.op :=
  match o with OPut bs => Put 0 bs | ODelete bs => Delete 0 bs | OGet bs => GetNode 0 bs end.

Definition optN_eqb (a b : option N) : bool :=
  match a, b with Some x, Some y => x =? y | None, None => true | _, _ => false end.

(** a result agrees with the specification's output; a Delete that lost the race reports the node it
    had found but counts as a Delete of an absent key *)
Definition res_match (r : result) (o : out) : bool :=
  match r, o with
  | RNode a, ONode b => optN_eqb a b
  | RDel a true, ODel b true => optN_eqb a b
  | RDel _ false, ODel _ false => true
  | _, _ => false
  end.

(** run the specification over the linearization order, checking every recorded result *)
Fixpoint replay_lin (sp : spec) (h : list (nat * NitroConc.op * result)) : option spec :=
  match h with
  | [] => Some sp
  | (_, o, r) :: t =>
    let '(sp', x) := sp_step kcmp sp (to_spec_op o) in
    if res_match r x then replay_lin sp' t else None
  end.

Definition spec0 (s0 : list ver) (nv c : N) : spec := mkSpec (live_entries s0) nv c 0 [].

Definition lin_of (i : nat) (h : list (nat * NitroConc.op * result)) : list (NitroConc.op * result) :=
  map (fun e => (snd (fst e), snd e)) (filter (fun e => Nat.eqb (fst (fst e)) i) h).

Definition quiescentN (y : sysT) : bool := quiescent shared local pers NitroConc.op result y.

(** C03: the ghost log is a linearization.  (1) the store invariant holds in every reachable state (in
    particular at most one live version per key: of concurrent Puts of one key one succeeds per state
    change); (2) replaying the log sequentially on the set specification reproduces every recorded
    result and ends in the abstract content of the store; (3) the log contains exactly the completed
    operations of every writer, in program order, with the results they returned — plus at most the
    one in-flight Delete whose outcome has already been decided.  Every entry is appended during a
    step of the logged operation or of the operation that decided it, hence between call and return. *)
Definition stmt_nitro_linearizable : Prop :=
  forall s0 c nv progs sched,
    store_inv kcmp c s0 -> (forall v, In v s0 -> vid v < nv) -> 1 <= c ->
    let y := runS kcmp (init s0 c nv progs) sched in
    store_inv kcmp c (store (sh y)) /\
    (exists sp, replay_lin (spec0 s0 nv c) (lin (sh y)) = Some sp /\
                sp_live sp = live_entries (store (sh y)) /\ sp_next sp = next_vid (sh y)) /\
    (forall i t prog, nth_error (ths y) i = Some t -> nth_error progs i = Some prog ->
       let n := length (done t) in
       (lin_of i (lin (sh y)) = combine (firstn n prog) (done t) \/
        exists o r, nth_error prog n = Some o /\ cur t <> None /\
                    lin_of i (lin (sh y)) = combine (firstn n prog) (done t) ++ [(o, r)])).

(** at quiescence the writers' counts add up to the change of the set, and the writers' garbage lists
    hold exactly the versions that died in this epoch, each once *)
Definition stmt_quiescent_counts : Prop :=
  forall s0 c nv progs sched,
    store_inv kcmp c s0 -> (forall v, In v s0 -> vid v < nv) -> 1 <= c ->
    (forall v, In v s0 -> vdead v <> c) ->
    let y := runS kcmp (init s0 c nv progs) sched in
    quiescentN y = true ->
    fold_right Z.add 0%Z (map (fun t => w_count (pers_of t)) (ths y))
      = (Z.of_nat (length (live_entries (store (sh y)))) - Z.of_nat (length (live_entries s0)))%Z /\
    let g := concat (map (fun t => w_gc (pers_of t)) (ths y)) in
    NoDup g /\ forall i, In i g <-> exists v, In v (store (sh y)) /\ vid v = i /\ vdead v = c.

End Stmts.
