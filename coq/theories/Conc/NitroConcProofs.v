(** Proofs of the statements of NitroConcStmts.v: the ghost log of the concurrent-writer machine is a
    linearization, and the writers' counts / garbage lists add up. *)
From NV Require Import Base.Bytes Base.Sched Mvcc.Store Mvcc.Ops Mvcc.Spec Mvcc.InvDefs Mvcc.Stmts Mvcc.OpsProofs Conc.NitroConc Conc.NitroConcStmts.
From Coq Require Import List ZArith Bool Lia ZifyN ZifyNat ZifyBool Permutation.
Import ListNotations.
Open Scope N_scope.

(** * generic list facts *)
Lemma span_app_all {A} (f : A -> bool) l1 l2 :
  Forall (fun x => f x = true) l1 ->
  match l2 with [] => True | x :: _ => f x = false end ->
  span f (l1 ++ l2) = (l1, l2).
Proof.
  intros H1 H2. induction H1 as [|x l Hx Hl IH]; cbn [app span].
  - destruct l2 as [|y r]; cbn [span]; [reflexivity|]. rewrite H2. reflexivity.
  - rewrite Hx, IH. reflexivity.
Qed.

Lemma map_inj_in' {A B} (f : A -> B) l a b :
  NoDup (map f l) -> In a l -> In b l -> f a = f b -> a = b.
Proof.
  induction l as [|x l IH]; cbn; intros Hnd Ha Hb Hab; [tauto|].
  inversion Hnd as [|? ? Hni Hnd']; subst.
  destruct Ha as [<-|Ha], Hb as [<-|Hb]; auto.
  - exfalso. apply Hni. rewrite Hab. apply in_map; auto.
  - exfalso. apply Hni. rewrite <- Hab. apply in_map; auto.
Qed.

Lemma nodup_map_filter' {A B} (f : A -> B) p l : NoDup (map f l) -> NoDup (map f (filter p l)).
Proof.
  induction l as [|a l IH]; cbn; auto. intro H. inversion H as [|? ? Hni Hnd]; subst.
  destruct (p a); cbn; auto. constructor; auto. intro Hin. apply Hni.
  apply in_map_iff in Hin. destruct Hin as (u & Hu & Hus). apply filter_In in Hus.
  apply in_map_iff. exists u. tauto.
Qed.

Lemma skipn_cons_nth {A} k (l : list A) o r : skipn k l = o :: r -> nth_error l k = Some o /\ skipn (S k) l = r.
Proof.
  revert l; induction k as [|k IH]; intros l H.
  - cbn in H. subst l. auto.
  - destruct l as [|x l]; [discriminate|]. cbn [skipn] in H. apply IH in H. exact H.
Qed.

Lemma firstn_S_nth {A} k (l : list A) o : nth_error l k = Some o -> firstn (S k) l = firstn k l ++ [o].
Proof.
  revert l; induction k as [|k IH]; intros l H.
  - destruct l as [|x l]; [discriminate|]. cbn in H. inversion H; subst. reflexivity.
  - destruct l as [|x l]; [discriminate|]. cbn [nth_error] in H. specialize (IH l H).
    change (firstn (S (S k)) (x :: l)) with (x :: firstn (S k) l). rewrite IH. reflexivity.
Qed.

Lemma combine_snoc {A B} (a : list A) (b : list B) x y : length a = length b ->
  combine (a ++ [x]) (b ++ [y]) = combine a b ++ [(x, y)].
Proof.
  revert b; induction a as [|u a IH]; intros [|v b] H; cbn in H; try discriminate; [reflexivity|].
  cbn. rewrite IH by lia. reflexivity.
Qed.

Lemma combine_step {A B} k (prog : list A) (d : list B) o r :
  nth_error prog k = Some o -> length d = k ->
  combine (firstn (S k) prog) (d ++ [r]) = combine (firstn k prog) d ++ [(o, r)].
Proof.
  intros Hn Hl. rewrite (firstn_S_nth _ _ _ Hn). apply combine_snoc.
  rewrite firstn_length_le; [lia|]. assert (k < length prog)%nat by (apply nth_error_Some; congruence). lia.
Qed.

Lemma filter_id {A} (f : A -> bool) l : (forall x, In x l -> f x = true) -> filter f l = l.
Proof.
  induction l as [|a l IH]; cbn; intro H; auto. rewrite (H a (or_introl eq_refl)). f_equal. apply IH. auto.
Qed.

(** * the publish CAS on a sorted list *)
Definition last_vid (prev : option N) (l : list ver) : option N :=
  fold_left (fun _ v => Some (vid v)) l prev.

Lemma optN_eq_true a b : optN_eq a b = true -> a = b.
Proof. destruct a, b; cbn; intro H; try discriminate; auto. apply N.eqb_eq in H. congruence. Qed.

Lemma adjacent_split pred succ s : forall prev, adjacent pred succ s prev = true ->
  exists l1 l2, s = l1 ++ l2 /\ last_vid prev l1 = pred /\ option_map vid (hd_error l2) = succ.
Proof.
  induction s as [|a s IH]; intros prev H; cbn [adjacent] in H.
  - apply andb_true_iff in H. destruct H as [H1 H2]. apply optN_eq_true in H1.
    exists [], []. destruct succ; [discriminate|]. auto.
  - apply orb_true_iff in H. destruct H as [H|H].
    + apply andb_true_iff in H. destruct H as [H1 H2]. apply optN_eq_true in H1.
      exists [], (a :: s). destruct succ as [x|]; [|discriminate]. apply N.eqb_eq in H2. subst x. auto.
    + destruct (IH _ H) as (l1 & l2 & -> & E1 & E2). exists (a :: l1), l2. auto.
Qed.

Lemma last_vid_snoc prev l a : last_vid prev (l ++ [a]) = Some (vid a).
Proof. unfold last_vid. rewrite fold_left_app. reflexivity. Qed.

Lemma insert_after_none x s : insert_after None x s = x :: s.
Proof. destruct s; reflexivity. Qed.

Lemma insert_after_app p x l a l2 : vid a = p -> (forall u, In u l -> vid u <> p) ->
  insert_after (Some p) x ((l ++ [a]) ++ l2) = l ++ a :: x :: l2.
Proof.
  intros Ha. induction l as [|u l IH]; intros Hl; cbn [app insert_after].
  - apply N.eqb_eq in Ha. rewrite Ha. reflexivity.
  - destruct (N.eqb_spec (vid u) p) as [e|ne]; [exfalso; apply (Hl u); cbn; auto|].
    f_equal. apply IH. intros; apply Hl; cbn; auto.
Qed.

Section Proofs.
Variable kcmp : list N -> list N -> comparison.
Hypothesis laws : cmp_laws kcmp.

(** what a writer parked before the publish CAS knows about its predecessor and successor; every
    clause is stable under the other writers' steps *)
Definition pub_ok (s : list ver) (nx e : N) (bs : list N) (pred succ : option N) : Prop :=
  (forall q, pred = Some q \/ succ = Some q -> q < nx) /\
  (forall v, In v s -> Some (vid v) = pred ->
     before_ins kcmp bs e v = true /\ exist_eq kcmp bs (Some v) = false) /\
  (forall v, In v s -> Some (vid v) = succ -> ins_cmp kcmp v bs e = Gt).

Lemma cas_split e s nx bs pred succ :
  store_inv kcmp e s -> pub_ok s nx e bs pred succ -> adjacent pred succ s None = true ->
  exists l1 l2, s = l1 ++ l2 /\ span (before_ins kcmp bs e) s = (l1, l2) /\
    (forall x, insert_after pred x s = l1 ++ x :: l2) /\
    exist_eq kcmp bs (last_opt l1) = false /\
    match hd_error l2 with Some q => ins_cmp kcmp q bs e = Gt | None => True end.
Proof.
  intros Hinv (_ & Hp & Hs) Hadj.
  destruct (adjacent_split _ _ _ _ Hadj) as (l1 & l2 & -> & E1 & E2).
  exists l1, l2. split; [reflexivity|].
  assert (Hq : match hd_error l2 with Some q => ins_cmp kcmp q bs e = Gt | None => True end).
  { destruct l2 as [|q l2]; cbn [hd_error]; auto. apply Hs; [apply in_or_app; right; left; auto|].
    cbn in E2. auto. }
  assert (Hq2 : match l2 with [] => True | x :: _ => before_ins kcmp bs e x = false end).
  { destruct l2 as [|q l2]; auto. cbn in Hq. unfold before_ins. rewrite Hq. reflexivity. }
  destruct (snoc_case l1) as [->|(l & a & ->)].
  - cbn in E1. subst pred. cbn [app]. repeat split; auto.
    + apply (span_app_all _ [] l2); auto.
    + intro x. apply insert_after_none.
  - rewrite last_vid_snoc in E1. subst pred.
    assert (Ha : In a ((l ++ [a]) ++ l2)) by (apply in_or_app; left; apply in_or_app; right; left; auto).
    destruct (Hp a Ha eq_refl) as [Hb He].
    repeat split; auto.
    + apply span_app_all; auto. apply Forall_app. split; [|constructor; auto].
      apply Forall_forall. intros u Hu.
      pose proof (si_sorted _ _ _ Hinv) as Hso. apply sorted_app in Hso. destruct Hso as (Hso & _ & _).
      apply sorted_app in Hso. destruct Hso as (_ & _ & Hua). specialize (Hua u a Hu (or_introl eq_refl)).
      unfold before_ins in *. destruct (ins_cmp kcmp a bs e) eqn:Ea; try discriminate.
      rewrite (ins_lt_trans kcmp laws u a bs e Hua); [reflexivity|]. rewrite Ea. discriminate.
    + intro x. rewrite insert_after_app with (p := vid a); auto; [rewrite <- app_assoc; reflexivity|]. intros u Hu Heq.
      pose proof (si_vids _ _ _ Hinv) as Hnd. rewrite <- app_assoc in Hnd. rewrite map_app in Hnd.
      cbn [app map] in Hnd. apply NoDup_remove_2 in Hnd. apply Hnd. apply in_or_app. left.
      rewrite <- Heq. apply in_map. auto.
    + rewrite last_opt_snoc. auto.
Qed.

Lemma cas_insert e s nx bs pred succ i :
  store_inv kcmp e s -> pub_ok s nx e bs pred succ -> adjacent pred succ s None = true ->
  insert_after pred (mkVer bs e 0 i) s = insert_ver kcmp (mkVer bs e 0 i) s /\
  has_live kcmp bs s = false.
Proof.
  intros Hinv Hp Hadj. destruct (cas_split _ _ _ _ _ _ Hinv Hp Hadj) as (l1 & l2 & Hs & Hsp & Hins & Hex & Hq).
  split.
  - rewrite Hins. unfold insert_ver. cbn [vitem vborn]. rewrite Hsp. reflexivity.
  - rewrite <- (put_rejects_iff_live kcmp laws e s bs Hinv). unfold find_ins. rewrite Hsp.
    rewrite Hex. destruct (hd_error l2) as [q|]; [|reflexivity]. rewrite Hq. reflexivity.
Qed.

(** * the ghost log *)
Notation thr := (thread local pers op result).
Definition tid_of (e : nat * list N * N) : nat := fst (fst e).

Lemma lin_of_app j a b : lin_of j (a ++ b) = lin_of j a ++ lin_of j b.
Proof. unfold lin_of. rewrite filter_app, map_app. reflexivity. Qed.

Lemma lin_of_one_same j o r : lin_of j [(j, o, r)] = [(o, r)].
Proof. unfold lin_of. cbn. rewrite Nat.eqb_refl. reflexivity. Qed.

Lemma lin_of_one_other i j o r : i <> j -> lin_of j [(i, o, r)] = [].
Proof. intro H. unfold lin_of; cbn. destruct (Nat.eqb_spec i j); [tauto|reflexivity]. Qed.

Lemma losers_cons i n e pd :
  losers i n (e :: pd) =
  (if (snd e =? n) && negb (Nat.eqb (tid_of e) i)
   then [(tid_of e, ODelete (snd (fst e)), RDel (Some n) false)] else []) ++ losers i n pd.
Proof. unfold losers, tid_of. cbn [filter]. destruct ((snd e =? n) && negb (Nat.eqb (fst (fst e)) i)); reflexivity. Qed.

Lemma lin_of_losers_nil j i n pd :
  (forall e, In e pd -> tid_of e = j -> snd e = n -> j = i) -> lin_of j (losers i n pd) = [].
Proof.
  induction pd as [|e pd IH]; intro H; [reflexivity|].
  rewrite losers_cons, lin_of_app, IH by (intros; eapply H; cbn; eauto).
  destruct ((snd e =? n) && negb (Nat.eqb (tid_of e) i)) eqn:E; [|reflexivity].
  apply andb_true_iff in E. destruct E as [E1 E2]. apply N.eqb_eq in E1.
  rewrite lin_of_one_other; [reflexivity|]. intro Hj.
  assert (Hji : j = i) by (apply (H e); cbn; auto). rewrite Hj, Hji, Nat.eqb_refl in E2. discriminate.
Qed.

Lemma lin_of_losers_one j i n bs pd :
  NoDup (map tid_of pd) -> In (j, bs, n) pd -> j <> i ->
  lin_of j (losers i n pd) = [(ODelete bs, RDel (Some n) false)].
Proof.
  induction pd as [|e pd IH]; intros Hnd Hin Hji; [destruct Hin|].
  cbn [map] in Hnd. inversion Hnd as [|? ? Hni Hnd']; subst.
  rewrite losers_cons, lin_of_app. destruct Hin as [->|Hin].
  - cbn [snd fst tid_of]. rewrite N.eqb_refl. destruct (Nat.eqb_spec j i) as [|_]; [tauto|]. cbn [andb negb].
    rewrite lin_of_one_same, lin_of_losers_nil; [reflexivity|].
    intros e He Hj. exfalso. apply Hni. unfold tid_of at 1; cbn [fst]. rewrite <- Hj. apply (in_map tid_of); auto.
  - rewrite (IH Hnd' Hin Hji).
    assert (Hne : tid_of e <> j).
    { intro Hj. apply Hni. rewrite Hj. apply (in_map tid_of pd (j, bs, n)). exact Hin. }
    destruct ((snd e =? n) && negb (Nat.eqb (tid_of e) i)); [|reflexivity].
    rewrite lin_of_one_other by exact Hne. reflexivity.
Qed.

Lemma replay_lin_app sp h1 h2 :
  replay_lin kcmp sp (h1 ++ h2) =
  match replay_lin kcmp sp h1 with Some sp' => replay_lin kcmp sp' h2 | None => None end.
Proof.
  revert sp; induction h1 as [|[[i o] r] h1 IH]; intro sp; cbn [app replay_lin]; [reflexivity|].
  destruct (sp_step kcmp sp (to_spec_op o)) as [sp' x]. destruct (res_match r x); auto.
Qed.

Lemma replay_lin_one sp i o r sp' x :
  sp_step kcmp sp (to_spec_op o) = (sp', x) -> res_match r x = true ->
  replay_lin kcmp sp [(i, o, r)] = Some sp'.
Proof. intros H1 H2. cbn [replay_lin]. rewrite H1, H2. reflexivity. Qed.

Lemma replay_losers sp i n pd :
  (forall j bs, In (j, bs, n) pd -> sp_find kcmp bs (sp_live sp) = None) ->
  replay_lin kcmp sp (losers i n pd) = Some sp.
Proof.
  induction pd as [|[[j bs] n'] pd IH]; intro H; [reflexivity|].
  rewrite losers_cons, replay_lin_app. cbn [snd fst tid_of].
  destruct (N.eqb_spec n' n) as [->|ne]; cbn [andb]; [|apply IH; intros; eapply H; right; eauto].
  destruct (negb (Nat.eqb j i)); [|apply IH; intros; eapply H; right; eauto].
  cbn [replay_lin to_spec_op sp_step]. rewrite (H j bs (or_introl eq_refl)). cbn [res_match].
  apply IH; intros; eapply H; right; eauto.
Qed.

(** * how the store may change under another writer's step *)
Definition evolves (s : list ver) (nx : N) (s' : list ver) : Prop :=
  forall v', In v' s' -> nx <= vid v' \/
    exists v, In v s /\ vid v' = vid v /\ vitem v' = vitem v /\ vborn v' = vborn v /\
              (vdead v' = vdead v \/ vdead v' <> 0).

Lemma evolves_refl s nx : evolves s nx s.
Proof. intros v Hv. right. exists v. repeat split; auto. Qed.

Lemma evolves_insert s nx x : vid x = nx -> evolves s nx (insert_ver kcmp x s).
Proof.
  intros Hx v Hv. apply insert_members in Hv. destruct Hv as [->|Hv]; [left; lia|].
  right. exists v. repeat split; auto.
Qed.

Lemma evolves_remove s nx n : evolves s nx (remove_vid n s).
Proof. intros v Hv. apply filter_In in Hv. right. exists v. repeat split; tauto. Qed.

Lemma evolves_set_dead s nx n d : d <> 0 -> evolves s nx (set_dead n d s).
Proof.
  intros Hd v Hv. apply in_map_iff in Hv. destruct Hv as (u & <- & Hu). right. exists u.
  destruct (vid u =? n); cbn; repeat split; auto.
Qed.

Definition not_alive (s : list ver) (n : N) : Prop := forall v, In v s -> vid v = n -> vdead v <> 0.

Lemma pub_ok_evolves s nx e bs pr su s' nx' :
  pub_ok s nx e bs pr su -> evolves s nx s' -> nx <= nx' -> pub_ok s' nx' e bs pr su.
Proof.
  intros (H1 & H2 & H3) Hev Hnx. split; [|split].
  - intros q Hq. specialize (H1 q Hq). lia.
  - intros v' Hv' Hp. destruct (Hev v' Hv') as [Hf|(v & Hv & Ei & Et & Eb & Ed)].
    + exfalso. assert (vid v' < nx) by (apply H1; left; auto). lia.
    + rewrite Ei in Hp. destruct (H2 v Hv Hp) as [Hb He]. split.
      * unfold before_ins, ins_cmp in *. rewrite Et, Eb. exact Hb.
      * cbn [exist_eq] in *. destruct Ed as [Ed|Ed].
        -- rewrite Ed, Et. exact He.
        -- destruct (N.eqb_spec (vdead v') 0); [tauto|reflexivity].
  - intros v' Hv' Hp. destruct (Hev v' Hv') as [Hf|(v & Hv & Ei & Et & Eb & Ed)].
    + exfalso. assert (vid v' < nx) by (apply H1; right; auto). lia.
    + rewrite Ei in Hp. specialize (H3 v Hv Hp). unfold ins_cmp in *. rewrite Et, Eb. exact H3.
Qed.

Lemma not_alive_evolves s nx n s' : n < nx -> not_alive s n -> evolves s nx s' -> not_alive s' n.
Proof.
  intros Hn Hna Hev v' Hv' Hid. destruct (Hev v' Hv') as [Hf|(v & Hv & Ei & _ & _ & Ed)]; [lia|].
  assert (vdead v <> 0) by (apply Hna; auto; congruence). lia.
Qed.

(** * facts about live versions *)
Lemma has_live_find bs s : has_live kcmp bs s = false -> find_live kcmp bs s = None.
Proof. intro H. apply find_none_all. apply existsb_false_inv. exact H. Qed.

Lemma find_live_unique e s bs v :
  store_inv kcmp e s -> In v s -> vdead v = 0 -> kcmp bs (vitem v) = Eq -> find_live kcmp bs s = Some v.
Proof.
  intros Hinv Hv Hd Hk. apply in_split in Hv. destruct Hv as (a & b & ->).
  assert (Hl : livek kcmp bs v = true) by (apply livek_true; auto).
  change (find_live kcmp bs (a ++ v :: b)) with (find (livek kcmp bs) (a ++ v :: b)).
  rewrite find_app', (find_none_all _ _ (livek_uniq kcmp laws _ _ _ _ _ Hinv Hl)). cbn [find]. rewrite Hl. reflexivity.
Qed.

Lemma live_unique e s bs v w :
  store_inv kcmp e s -> In v s -> In w s -> vdead v = 0 -> vdead w = 0 ->
  kcmp bs (vitem v) = Eq -> kcmp bs (vitem w) = Eq -> v = w.
Proof.
  intros Hinv Hv Hw Dv Dw Kv Kw.
  pose proof (find_live_unique e s bs v Hinv Hv Dv Kv) as E1.
  pose proof (find_live_unique e s bs w Hinv Hw Dw Kw) as E2. congruence.
Qed.

Lemma no_live_sp_find bs s :
  (forall w, In w s -> vdead w = 0 -> kcmp bs (vitem w) = Eq -> False) ->
  sp_find kcmp bs (live_entries s) = None.
Proof.
  intro H. rewrite <- find_live_entries.
  assert (E : find_live kcmp bs s = None).
  { apply find_none_all. intros w Hw. apply (livek_false kcmp). intros; eapply H; eauto. }
  rewrite E. reflexivity.
Qed.

Lemma getnode_live bs (s : shared) :
  store_inv kcmp (epoch s) (store s) ->
  getnode kcmp bs s = option_map vid (find_live kcmp bs (store s)).
Proof. intro H. unfold getnode. apply (getnode_spec kcmp laws _ _ bs H). Qed.

Lemma sp_remove_nohas' h l : sp_has h l = false -> sp_remove h l = l.
Proof.
  unfold sp_has, sp_remove. induction l as [|e l IH]; cbn; auto. intro H.
  apply orb_false_iff in H. destruct H as [H1 H2]. rewrite H1. cbn. rewrite IH; auto.
Qed.

Lemma sp_remove_len' h l : NoDup (map fst l) -> sp_has h l = true ->
  S (length (sp_remove h l)) = length l.
Proof.
  unfold sp_has. induction l as [|e l IH]; cbn; intros Hnd H; [discriminate|].
  inversion Hnd as [|? ? Hni Hnd']; subst.
  destruct (N.eqb_spec (fst e) h) as [e1|ne]; cbn.
  - f_equal. fold (sp_remove h l). rewrite sp_remove_nohas'; auto.
    apply existsb_false. intros v Hv. apply N.eqb_neq. intro Hh. apply Hni. rewrite e1, <- Hh.
    apply in_map; auto.
  - f_equal. apply IH; auto.
Qed.

Lemma sp_insert_len' e l : length (sp_insert kcmp e l) = S (length l).
Proof. induction l as [|x l IH]; cbn; auto. destruct (kcmp (snd x) (snd e)); cbn; auto. Qed.

Lemma live_remove_len s n v : NoDup (map vid s) -> In v s -> vid v = n -> vdead v = 0 ->
  S (length (sp_remove n (live_entries s))) = length (live_entries s).
Proof.
  intros Hnd Hv Hid Hd. apply sp_remove_len'.
  - unfold live_entries. rewrite map_map. cbn [fst]. apply (nodup_vid_filter alive s Hnd).
  - rewrite sp_has_live by exact Hnd. subst n. rewrite (find_vid_nodup s v Hnd Hv).
    unfold alive. apply N.eqb_eq. exact Hd.
Qed.


(** * per-thread invariant *)
Definition op_of (l : local) : op :=
  match l with LPub bs _ _ => OPut bs | LDel bs _ => ODelete bs end.

(** [extra]: what the thread's in-flight operation has already contributed to the log *)
Definition loc_ok (s : shared) (i : nat) (l : local) (extra : list (op * result)) : Prop :=
  match l with
  | LPub bs pr su => pub_ok (store s) (next_vid s) (epoch s) bs pr su /\ extra = []
  | LDel bs n => n < next_vid s /\
      ((In (i, bs, n) (pending s) /\ extra = []) \/
       ((forall e, In e (pending s) -> tid_of e <> i) /\ not_alive (store s) n /\
        extra = [(ODelete bs, RDel (Some n) false)]))
  end.

Definition TI (s : shared) (i : nat) (t : thr) (prog : list op) : Prop :=
  let k := length (done t) in
  match cur t with
  | None => todo t = skipn k prog /\ lin_of i (lin s) = combine (firstn k prog) (done t)
  | Some l => exists extra, nth_error prog k = Some (op_of l) /\ todo t = skipn (S k) prog /\
                loc_ok s i l extra /\ lin_of i (lin s) = combine (firstn k prog) (done t) ++ extra
  end.

Lemma TI_frame s s' j (t : thr) prog :
  TI s j t prog -> epoch s' = epoch s -> next_vid s <= next_vid s' ->
  evolves (store s) (next_vid s) (store s') ->
  lin_of j (lin s') = lin_of j (lin s) ->
  (forall e, tid_of e = j -> (In e (pending s') <-> In e (pending s))) ->
  TI s' j t prog.
Proof.
  unfold TI. intros H He Hn Hev Hl Hp. destruct (cur t) as [l|].
  - destruct H as (extra & H1 & H2 & H3 & H4). exists extra. rewrite Hl. repeat split; auto.
    destruct l as [bs pr su|bs n]; cbn [loc_ok] in *.
    + destruct H3 as [H3 ->]. split; auto. rewrite He. eapply pub_ok_evolves; eauto.
    + destruct H3 as [Hlt H3]. split; [lia|]. destruct H3 as [[Hin ->]|(Hno & Hna & ->)].
      * left. split; auto. apply Hp; auto.
      * right. repeat split; auto.
        -- intros e He' Heq. apply (Hno e); auto. apply Hp; auto.
        -- eapply not_alive_evolves; eauto.
  - rewrite Hl. exact H.
Qed.

(** * garbage bookkeeping *)
Definition dead_now (s : list ver) (e i : N) : Prop := exists v, In v s /\ vid v = i /\ vdead v = e.
Definition gcs (l : list thr) : list N := concat (map (fun t => w_gc (pers_of t)) l).
Definition cnt (t : thr) : Z := w_count (pers_of t).

Definition gc_step (e : N) (s s' : list ver) (p p' : pers) : Prop :=
  (w_gc p' = w_gc p /\ forall i, dead_now s' e i <-> dead_now s e i) \/
  (exists n, w_gc p' = w_gc p ++ [n] /\ ~ dead_now s e n /\
             forall i, dead_now s' e i <-> dead_now s e i \/ i = n).

Lemma gc_step_refl e s p : gc_step e s s p p.
Proof. left. split; auto. tauto. Qed.

Lemma gcs_upd_same i (t t' : thr) l : nth_error l i = Some t -> w_gc (pers_of t') = w_gc (pers_of t) ->
  gcs (upd_th i t' l) = gcs l.
Proof.
  unfold gcs. revert i; induction l as [|x l IH]; intros [|i] H E; cbn in *; try discriminate.
  - inversion H; subst. rewrite E. reflexivity.
  - rewrite (IH i H E). reflexivity.
Qed.

Lemma gcs_upd_snoc i (t t' : thr) l n : nth_error l i = Some t -> w_gc (pers_of t') = w_gc (pers_of t) ++ [n] ->
  Permutation (gcs (upd_th i t' l)) (n :: gcs l).
Proof.
  unfold gcs. revert i; induction l as [|x l IH]; intros [|i] H E; cbn in *; try discriminate.
  - inversion H; subst. rewrite E, <- app_assoc. cbn [app]. symmetry. apply Permutation_middle.
  - specialize (IH i H E). rewrite IH. symmetry. apply Permutation_middle.
Qed.

Ltac psh := cbn [store next_vid epoch lin pending sh ths cur todo done pers_of w_gc w_count].

Section Run.
Variables (s0 : list ver) (c nv : N) (progs : list (list op)).

Record Inv (y : sysT) : Prop := {
  i_store : store_inv kcmp (epoch (sh y)) (store (sh y));
  i_vids : forall v, In v (store (sh y)) -> vid v < next_vid (sh y);
  i_epoch : 1 <= epoch (sh y);
  i_epc : epoch (sh y) = c;
  i_spec : exists sp, replay_lin kcmp (spec0 s0 nv c) (lin (sh y)) = Some sp /\
                      sp_live sp = live_entries (store (sh y)) /\ sp_next sp = next_vid (sh y);
  i_len : length (ths y) = length progs;
  i_thr : forall i t prog, nth_error (ths y) i = Some t -> nth_error progs i = Some prog ->
            TI (sh y) i t prog;
  i_pd_nodup : NoDup (map tid_of (pending (sh y)));
  i_pd : forall i bs n, In (i, bs, n) (pending (sh y)) ->
     (exists t, nth_error (ths y) i = Some t /\ cur t = Some (LDel bs n)) /\
     (exists v, In v (store (sh y)) /\ vid v = n /\ vdead v = 0 /\ kcmp bs (vitem v) = Eq);
  i_cnt : (sumZ cnt (ths y) =
           Z.of_nat (length (live_entries (store (sh y)))) - Z.of_nat (length (live_entries s0)))%Z;
  i_gc : (forall v, In v s0 -> vdead v <> c) ->
         NoDup (gcs (ths y)) /\ forall i, In i (gcs (ths y)) <-> dead_now (store (sh y)) c i
}.

Lemma nth_lt' {A} (l : list A) i t : nth_error l i = Some t -> (i < length l)%nat.
Proof. intro H. apply nth_error_Some. congruence. Qed.

Lemma Inv_upd s l i (t t' : thr) prog s' :
  Inv (mkSys s l) -> nth_error l i = Some t -> nth_error progs i = Some prog ->
  store_inv kcmp (epoch s') (store s') ->
  (forall v, In v (store s') -> vid v < next_vid s') ->
  epoch s' = epoch s ->
  (exists sp, replay_lin kcmp (spec0 s0 nv c) (lin s') = Some sp /\
              sp_live sp = live_entries (store s') /\ sp_next sp = next_vid s') ->
  TI s' i t' prog ->
  (forall j tj pj, j <> i -> nth_error l j = Some tj -> nth_error progs j = Some pj -> TI s' j tj pj) ->
  NoDup (map tid_of (pending s')) ->
  (forall j bs n, In (j, bs, n) (pending s') ->
     ((j = i /\ cur t' = Some (LDel bs n)) \/ (j <> i /\ In (j, bs, n) (pending s))) /\
     (exists v, In v (store s') /\ vid v = n /\ vdead v = 0 /\ kcmp bs (vitem v) = Eq)) ->
  (Z.of_nat (length (live_entries (store s'))) - Z.of_nat (length (live_entries (store s))) = cnt t' - cnt t)%Z ->
  gc_step c (store s) (store s') (pers_of t) (pers_of t') ->
  Inv (mkSys s' (upd_th i t' l)).
Proof.
  intros H Et Ep Hst Hvid Hep Hsp Hti Hoth Hnd Hpd Hcnt Hgc.
  pose proof (nth_lt' _ _ _ Et) as Hlt.
  constructor; cbn [sh ths].
  - exact Hst.
  - exact Hvid.
  - rewrite Hep. apply (i_epoch _ H).
  - rewrite Hep. apply (i_epc _ H).
  - exact Hsp.
  - rewrite length_upd. apply (i_len _ H).
  - intros j tj pj Hj Hp. destruct (Nat.eq_dec j i) as [->|ne].
    + rewrite nth_upd_same in Hj by exact Hlt. inversion Hj; subst tj. rewrite Ep in Hp. inversion Hp; subst pj.
      exact Hti.
    + rewrite nth_upd_other in Hj by auto. eapply Hoth; eauto.
  - exact Hnd.
  - intros j bs n Hin. destruct (Hpd j bs n Hin) as [[[-> Hc]|[ne Hin']] Hv]; split; auto.
    + exists t'. split; auto. apply nth_upd_same; auto.
    + destruct (i_pd _ H j bs n Hin') as [(tj & Hj & Hcj) _]. cbn [sh ths] in *.
      exists tj. split; auto. rewrite nth_upd_other; auto.
  - rewrite (sumZ_upd _ _ _ _ cnt i t t' l Et). pose proof (i_cnt _ H) as E. cbn [sh ths] in E. lia.
  - intros Hs0. destruct (i_gc _ H Hs0) as [G1 G2]. cbn [sh ths] in *.
    destruct Hgc as [[Eg Hd]|(n & Eg & Hn & Hd)].
    + rewrite (gcs_upd_same i t t' l Et Eg). split; auto. intros x. rewrite G2, Hd. tauto.
    + pose proof (gcs_upd_snoc i t t' l n Et Eg) as P. split.
      * apply (Permutation_NoDup (Permutation_sym P)). constructor; auto. rewrite G2. exact Hn.
      * intros x. rewrite Hd, <- G2. split.
        -- intro Hx. apply (Permutation_in _ P) in Hx. destruct Hx as [<-|Hx]; auto.
        -- intro Hx. apply (Permutation_in _ (Permutation_sym P)). destruct Hx as [Hx| ->]; [right|left]; auto.
Qed.

Lemma get_prog s l i (t : thr) : Inv (mkSys s l) -> nth_error l i = Some t ->
  exists prog, nth_error progs i = Some prog.
Proof.
  intros H Et. pose proof (i_len _ H) as Hl. cbn [ths] in Hl. pose proof (nth_lt' _ _ _ Et).
  destruct (nth_error progs i) eqn:E; eauto. apply nth_error_None in E. lia.
Qed.

Lemma no_pd s l i (t : thr) : Inv (mkSys s l) -> nth_error l i = Some t ->
  (forall bs n, cur t <> Some (LDel bs n)) -> forall e, In e (pending s) -> tid_of e <> i.
Proof.
  intros H Et Hc [[j bs] n] He Hj. cbn in Hj. subst j.
  destruct (i_pd _ H i bs n He) as [(t1 & E1 & E2) _]. cbn [sh ths] in E1. rewrite Et in E1.
  inversion E1; subst. eapply Hc; eauto.
Qed.

Lemma lin_of_others j h : (forall e, In e h -> fst (fst e) <> j) -> lin_of j h = [].
Proof.
  unfold lin_of. induction h as [|e h IH]; intro H; [reflexivity|]. cbn [filter].
  destruct (Nat.eqb_spec (fst (fst e)) j) as [E|_]; [exfalso; apply (H e); cbn; auto|].
  apply IH. intros; apply H; cbn; auto.
Qed.

(** an operation that completes by appending one entry to the log, nothing else *)
Lemma Inv_log_complete s l i (t : thr) prog o r rest :
  Inv (mkSys s l) -> nth_error l i = Some t -> nth_error progs i = Some prog ->
  nth_error prog (length (done t)) = Some o -> rest = skipn (S (length (done t))) prog ->
  lin_of i (lin s) = combine (firstn (length (done t)) prog) (done t) ->
  (forall e, In e (pending s) -> tid_of e <> i) ->
  (forall sp, sp_live sp = live_entries (store s) ->
     exists x, sp_step kcmp sp (to_spec_op o) = (sp, x) /\ res_match r x = true) ->
  Inv (mkSys (mkSh (store s) (next_vid s) (epoch s) (lin s ++ [(i, o, r)]) (pending s))
             (upd_th i (mkThread rest None (pers_of t) (done t ++ [r])) l)).
Proof.
  intros H Et Ep Ho Hr Hl Hno Hsp.
  apply (Inv_upd s l i t _ prog); auto; cbn [store next_vid epoch lin pending].
  - apply (i_store _ H).
  - apply (i_vids _ H).
  - destruct (i_spec _ H) as (sp & R & L & Nx). cbn [sh] in *. exists sp. split; auto.
    rewrite replay_lin_app, R. destruct (Hsp sp L) as (x & Hx & Hm). eapply replay_lin_one; eauto.
  - unfold TI. psh. rewrite app_length. cbn [length]. rewrite Nat.add_1_r. split; auto.
    rewrite lin_of_app, lin_of_one_same, Hl. symmetry. apply combine_step; auto.
  - intros j tj pj ne Hj Hp. apply (TI_frame s); cbn [store next_vid epoch lin pending]; auto; try lia.
    + apply (i_thr _ H j tj pj Hj Hp).
    + apply evolves_refl.
    + rewrite lin_of_app, lin_of_one_other by auto. apply app_nil_r.
    + tauto.
  - apply (i_pd_nodup _ H).
  - intros j bs n Hin. destruct (i_pd _ H j bs n Hin) as [_ Hv]. split; auto. right. split; auto.
    apply (Hno _ Hin).
  - unfold cnt. cbn [pers_of]. lia.
  - apply gc_step_refl.
Qed.

Lemma last_opt_in {A} (l : list A) a : last_opt l = Some a -> In a l.
Proof.
  destruct (snoc_case l) as [->|(l' & x & ->)]; [discriminate|]. rewrite last_opt_snoc. intro E.
  inversion E; subst. apply in_or_app. right. left. reflexivity.
Qed.

Lemma find_ins_pub_ok e s nx bs pred succ :
  store_inv kcmp e s -> (forall v, In v s -> vid v < nx) ->
  find_ins kcmp bs e s = (pred, succ, false) -> exist_eq kcmp bs pred = false ->
  pub_ok s nx e bs (option_map vid pred) (option_map vid succ).
Proof.
  intros Hinv Hvid Ef Ee. unfold find_ins in Ef.
  destruct (span (before_ins kcmp bs e) s) as [l1 l2] eqn:Es. inversion Ef as [[E1 E2 E3]]. clear Ef. subst pred succ.
  apply span_spec in Es. destruct Es as (Hs & F1 & F2).
  assert (Hp : forall a, last_opt l1 = Some a -> In a s).
  { intros a Ha. apply last_opt_in in Ha. rewrite Hs. apply in_or_app. auto. }
  assert (Hq : forall q, hd_error l2 = Some q -> In q s).
  { intros q Hq. destruct l2 as [|q' l2]; [discriminate|]. inversion Hq; subst. apply in_or_app. right. left. auto. }
  split; [|split].
  - intros q [Hq'|Hq'].
    + destruct (last_opt l1) as [a|] eqn:Ea; [|discriminate]. inversion Hq'; subst. apply Hvid, Hp. reflexivity.
    + destruct (hd_error l2) as [a|] eqn:Ea; [|discriminate]. inversion Hq'; subst. apply Hvid, Hq. reflexivity.
  - intros v Hv Hid. destruct (last_opt l1) as [a|] eqn:Ea; [|discriminate]. inversion Hid as [Hid'].
    assert (v = a) by (apply (vid_inj s); auto; apply (si_vids _ _ _ Hinv)). subst v. split; auto.
    rewrite Forall_forall in F1. apply F1. apply last_opt_in. exact Ea.
  - intros v Hv Hid. destruct l2 as [|q l2]; [discriminate|]. cbn [hd_error option_map] in *. inversion Hid as [Hid'].
    assert (In q s) by (apply Hq; reflexivity).
    assert (v = q) by (apply (vid_inj s); auto; apply (si_vids _ _ _ Hinv)). subst v.
    unfold before_ins in F2. destruct (ins_cmp kcmp q bs e); try discriminate. reflexivity.
Qed.

Lemma Inv_search_put s l i (t : thr) prog bs rest :
  Inv (mkSys s l) -> nth_error l i = Some t -> nth_error progs i = Some prog ->
  nth_error prog (length (done t)) = Some (OPut bs) -> rest = skipn (S (length (done t))) prog ->
  lin_of i (lin s) = combine (firstn (length (done t)) prog) (done t) ->
  (forall e, In e (pending s) -> tid_of e <> i) ->
  Inv (let '(s', p, r) := search_put kcmp i bs (pers_of t) s in
       mkSys s' (upd_th i (finish_seg local pers op result t rest p r) l)).
Proof.
  intros H Et Ep Ho Hr Hl Hno. unfold search_put.
  destruct (find_ins kcmp bs (epoch s) (store s)) as [[pred succ] found] eqn:Ef.
  pose proof (put_rejects_iff_live kcmp laws (epoch s) (store s) bs (i_store _ H)) as P.
  cbn [sh] in P. rewrite Ef in P.
  destruct (found || exist_eq kcmp bs pred) eqn:Er; cbn [finish_seg].
  - apply (Inv_log_complete s l i t prog); auto. intros sp L. cbn [to_spec_op sp_step]. rewrite L, <- find_live_entries.
    destruct (find_live kcmp bs (store s)) as [v|] eqn:Ef2.
    + cbn [option_map]. exists (ONode None). split; reflexivity.
    + exfalso. symmetry in P. apply existsb_exists in P. destruct P as (v & Hv & Hlv).
      pose proof (find_none _ _ Ef2 v Hv) as Hn. cbn beta in Hn. congruence.
  - apply orb_false_iff in Er. destruct Er as [-> Ee].
    apply (Inv_upd s l i t _ prog); auto.
    + apply (i_store _ H).
    + apply (i_vids _ H).
    + apply (i_spec _ H).
    + unfold TI. psh. exists []. cbn [op_of loc_ok]. rewrite app_nil_r.
      split; [exact Ho|]. split; [exact Hr|]. split; [|exact Hl]. split; [|reflexivity].
      apply (find_ins_pub_ok (epoch s) (store s) (next_vid s) bs pred succ (i_store _ H) (i_vids _ H) Ef Ee).
    + intros j tj pj _ Hj Hp. apply (i_thr _ H j tj pj Hj Hp).
    + apply (i_pd_nodup _ H).
    + intros j bs' n Hin. destruct (i_pd _ H j bs' n Hin) as [_ Hv]. split; auto. right. split; auto.
      apply (Hno _ Hin).
    + unfold cnt. psh. lia.
    + apply gc_step_refl.
Qed.

Lemma nodup_snoc' {A} (l : list A) x : NoDup l -> ~ In x l -> NoDup (l ++ [x]).
Proof.
  intros H1 H2. apply (Permutation_NoDup (Permutation_cons_append l x)). constructor; auto.
Qed.

Lemma Inv_del_begin s l i (t : thr) prog bs rest n :
  Inv (mkSys s l) -> nth_error l i = Some t -> nth_error progs i = Some prog -> cur t = None ->
  nth_error prog (length (done t)) = Some (ODelete bs) -> rest = skipn (S (length (done t))) prog ->
  lin_of i (lin s) = combine (firstn (length (done t)) prog) (done t) ->
  getnode kcmp bs s = Some n ->
  Inv (mkSys (mkSh (store s) (next_vid s) (epoch s) (lin s) (pending s ++ [(i, bs, n)]))
             (upd_th i (mkThread rest (Some (LDel bs n)) (pers_of t) (done t)) l)).
Proof.
  intros H Et Ep Ec Ho Hr Hl Hg.
  assert (Hno : forall e, In e (pending s) -> tid_of e <> i).
  { apply (no_pd s l i t H Et). intros; congruence. }
  rewrite (getnode_live bs s (i_store _ H)) in Hg.
  destruct (find_live kcmp bs (store s)) as [v|] eqn:Ef; [|discriminate]. cbn in Hg. inversion Hg as [Hn].
  apply find_some in Ef. destruct Ef as [Hv Hlv]. apply (livek_true kcmp) in Hlv. destruct Hlv as [Hd Hk].
  apply (Inv_upd s l i t _ prog); auto; psh.
  - apply (i_store _ H).
  - apply (i_vids _ H).
  - apply (i_spec _ H).
  - unfold TI. psh. exists []. cbn [op_of loc_ok]. psh. rewrite app_nil_r. repeat split; auto.
    + apply (i_vids _ H). exact Hv.
    + left. split; auto. apply in_or_app. right. left. reflexivity.
  - intros j tj pj ne Hj Hp. apply (TI_frame s); psh; auto; try lia.
    + apply (i_thr _ H j tj pj Hj Hp).
    + apply evolves_refl.
    + intros e He. rewrite in_app_iff. cbn [In]. split; [|tauto]. intros [Hin|[<-|[]]]; auto.
      cbn in He. congruence.
  - rewrite map_app. cbn [map]. apply nodup_snoc'; [apply (i_pd_nodup _ H)|].
    intro Hin. apply in_map_iff in Hin. destruct Hin as (e & He & Hin). apply (Hno e Hin He).
  - intros j bs' n' Hin. apply in_app_or in Hin. destruct Hin as [Hin|[Hin|[]]].
    + destruct (i_pd _ H j bs' n' Hin) as [_ Hv']. split; auto. right. split; auto. apply (Hno _ Hin).
    + inversion Hin; subst. split; [left; auto|]. exists v. auto.
  - unfold cnt. psh. lia.
  - apply gc_step_refl.
Qed.

Lemma c_pos s l : Inv (mkSys s l) -> c <> 0.
Proof. intro H. pose proof (i_epoch _ H). pose proof (i_epc _ H). cbn [sh] in *. lia. Qed.

Lemma Inv_publish s l i (t : thr) prog bs pr su :
  Inv (mkSys s l) -> nth_error l i = Some t -> nth_error progs i = Some prog ->
  cur t = Some (LPub bs pr su) -> adjacent pr su (store s) None = true ->
  Inv (mkSys (mkSh (insert_after pr (mkVer bs (epoch s) 0 (next_vid s)) (store s)) (next_vid s + 1) (epoch s)
                   (lin s ++ [(i, OPut bs, RNode (Some (next_vid s)))]) (pending s))
             (upd_th i (mkThread (todo t) None (mkPers (w_gc (pers_of t)) (w_count (pers_of t) + 1))
                                 (done t ++ [RNode (Some (next_vid s))])) l)).
Proof.
  intros H Et Ep Ec Ea.
  pose proof (i_thr _ H i t prog Et Ep) as Ti. unfold TI in Ti. cbn [sh] in Ti. rewrite Ec in Ti.
  destruct Ti as (extra & Ho & Htd & [Hpub ->] & Hl). cbn [op_of] in Ho. rewrite app_nil_r in Hl.
  pose proof (i_store _ H) as Hinv. cbn [sh] in Hinv.
  destruct (cas_insert _ _ _ _ _ _ (next_vid s) Hinv Hpub Ea) as [Eins Hnl]. rewrite Eins.
  assert (Hno : forall e, In e (pending s) -> tid_of e <> i).
  { apply (no_pd s l i t H Et). intros; congruence. }
  assert (Hfresh : forall v, In v (store s) -> vid v <> next_vid s).
  { intros v Hv. pose proof (i_vids _ H v Hv). cbn [sh] in *. lia. }
  pose proof (insert_live kcmp laws (epoch s) (store s) bs (next_vid s) Hinv Hnl) as Elive.
  apply (Inv_upd s l i t _ prog); auto; psh.
  - apply (insert_inv kcmp laws); auto.
  - intros v Hv. apply insert_members in Hv. destruct Hv as [->|Hv]; [cbn; lia|].
    pose proof (i_vids _ H v Hv). cbn [sh] in *. lia.
  - destruct (i_spec _ H) as (sp & R & L & Nx). cbn [sh] in *.
    exists (mkSpec (sp_insert kcmp (sp_next sp, bs) (sp_live sp)) (sp_next sp + 1) (sp_sn sp) (sp_count sp) (sp_snaps sp)).
    cbn [sp_live sp_next]. split; [|split].
    + rewrite replay_lin_app, R. apply (replay_lin_one _ _ _ _ _ (ONode (Some (sp_next sp)))).
      * cbn [to_spec_op sp_step]. rewrite L, <- find_live_entries, (has_live_find _ _ Hnl). reflexivity.
      * cbn [res_match optN_eqb]. rewrite Nx. apply N.eqb_refl.
    + rewrite Elive, L, Nx. reflexivity.
    + lia.
  - unfold TI. psh. rewrite app_length. cbn [length]. rewrite Nat.add_1_r. split; auto.
    rewrite lin_of_app, lin_of_one_same, Hl. symmetry. apply combine_step; auto.
  - intros j tj pj ne Hj Hp. apply (TI_frame s); psh; auto; try lia.
    + apply (i_thr _ H j tj pj Hj Hp).
    + apply evolves_insert. reflexivity.
    + rewrite lin_of_app, lin_of_one_other by auto. apply app_nil_r.
    + tauto.
  - apply (i_pd_nodup _ H).
  - intros j bs' n Hin. destruct (i_pd _ H j bs' n Hin) as [_ (v & Hv & Hv')]. split.
    + right. split; auto. apply (Hno _ Hin).
    + exists v. split; auto. apply insert_members. auto.
  - rewrite Elive, sp_insert_len'. unfold cnt. psh. lia.
  - left. split; auto. intros x. unfold dead_now. split.
    + intros (v & Hv & Hid & Hd). apply insert_members in Hv. destruct Hv as [->|Hv]; [|eauto].
      cbn in Hd. exfalso. apply (c_pos _ _ H). auto.
    + intros (v & Hv & Hid & Hd). exists v. split; auto. apply insert_members. auto.
Qed.

Lemma Inv_lose s l i (t : thr) prog bs n :
  Inv (mkSys s l) -> nth_error l i = Some t -> nth_error progs i = Some prog ->
  cur t = Some (LDel bs n) -> not_alive (store s) n ->
  Inv (mkSys (mkSh (store s) (next_vid s) (epoch s)
                   (lin s ++ (if is_pending i (pending s) then [(i, ODelete bs, RDel (Some n) false)] else []))
                   (drop_tid i (pending s)))
             (upd_th i (mkThread (todo t) None (pers_of t) (done t ++ [RDel (Some n) false])) l)).
Proof.
  intros H Et Ep Ec Hna.
  pose proof (i_thr _ H i t prog Et Ep) as Ti. unfold TI in Ti. cbn [sh] in Ti. rewrite Ec in Ti.
  destruct Ti as (extra & Ho & Htd & [Hlt Hcase] & Hl). cbn [op_of] in Ho.
  destruct Hcase as [[Hin _]|(Hno & _ & ->)].
  { exfalso. destruct (i_pd _ H i bs n Hin) as [_ (v & Hv & Hid & Hd & _)]. apply (Hna v Hv Hid Hd). }
  assert (E1 : is_pending i (pending s) = false).
  { unfold is_pending. apply existsb_false. intros e He. apply Nat.eqb_neq. apply (Hno e He). }
  assert (E2 : drop_tid i (pending s) = pending s).
  { unfold drop_tid. apply filter_id. intros e He. apply negb_true_iff, Nat.eqb_neq. apply (Hno e He). }
  rewrite E1, E2, app_nil_r.
  apply (Inv_upd s l i t _ prog); auto; psh.
  - apply (i_store _ H).
  - apply (i_vids _ H).
  - apply (i_spec _ H).
  - unfold TI. psh. rewrite app_length. cbn [length]. rewrite Nat.add_1_r. split; auto.
    rewrite Hl. symmetry. apply combine_step; auto.
  - intros j tj pj ne Hj Hp. apply (i_thr _ H j tj pj Hj Hp).
  - apply (i_pd_nodup _ H).
  - intros j bs' n' Hin. destruct (i_pd _ H j bs' n' Hin) as [_ Hv]. split; auto. right. split; auto.
    apply (Hno _ Hin).
  - unfold cnt. psh. lia.
  - apply gc_step_refl.
Qed.

(** a Delete wins against node [n]: the store loses the live version [v] (physically or logically),
    every deleter parked on [n] is logged as a failure right behind the winner *)
Lemma Inv_win s l i (t : thr) prog bs n v st' p' :
  Inv (mkSys s l) -> nth_error l i = Some t -> nth_error progs i = Some prog ->
  cur t = Some (LDel bs n) ->
  In v (store s) -> vid v = n -> vdead v = 0 ->
  store_inv kcmp (epoch s) st' ->
  (forall u', In u' st' -> exists u, In u (store s) /\ vid u' = vid u /\ vitem u' = vitem u /\
                                      vborn u' = vborn u /\ (vdead u' = vdead u \/ vdead u' <> 0)) ->
  not_alive st' n ->
  (forall u, In u (store s) -> vid u <> n -> In u st') ->
  (forall w, In w st' -> vdead w = 0 -> In w (store s) /\ vid w <> n) ->
  live_entries st' = sp_remove n (live_entries (store s)) ->
  w_count p' = (w_count (pers_of t) - 1)%Z ->
  gc_step c (store s) st' (pers_of t) p' ->
  Inv (mkSys (mkSh st' (next_vid s) (epoch s)
                   (lin s ++ (i, ODelete bs, RDel (Some n) true) :: losers i n (pending s))
                   (drop_node n (pending s)))
             (upd_th i (mkThread (todo t) None p' (done t ++ [RDel (Some n) true])) l)).
Proof.
  intros H Et Ep Ec Hv Hid Hd Hinv' Hshr Hna' Hkeep Hback Elive Hcnt Hgc.
  pose proof (i_store _ H) as Hinv. cbn [sh] in Hinv.
  pose proof (si_vids _ _ _ Hinv) as Hnd.
  pose proof (i_pd_nodup _ H) as Hpnd. cbn [sh] in Hpnd.
  pose proof (i_thr _ H i t prog Et Ep) as Ti. unfold TI in Ti. cbn [sh] in Ti. rewrite Ec in Ti.
  destruct Ti as (extra & Ho & Htd & [Hlt Hcase] & Hl). cbn [op_of] in Ho.
  destruct Hcase as [[Hin ->]|(_ & Hna & _)]; [|exfalso; apply (Hna v Hv Hid Hd)].
  rewrite app_nil_r in Hl.
  assert (Hkey : forall j bs', In (j, bs', n) (pending s) -> kcmp bs' (vitem v) = Eq).
  { intros j bs' Hj. destruct (i_pd _ H j bs' n Hj) as [_ (u & Hu & Hui & _ & Hk)]. cbn [sh] in *.
    assert (u = v) by (apply (vid_inj (store s)); auto; congruence). subst u. exact Hk. }
  assert (Hdead : forall j bs', In (j, bs', n) (pending s) ->
            forall w, In w st' -> vdead w = 0 -> kcmp bs' (vitem w) = Eq -> False).
  { intros j bs' Hj w Hw Hwd Hwk. destruct (Hback w Hw Hwd) as [Hws Hwn].
    assert (v = w) by (apply (live_unique (epoch s) (store s) bs'); eauto). subst w. auto. }
  assert (Hev : evolves (store s) (next_vid s) st') by (intros u' Hu'; right; apply Hshr; exact Hu').
  change ((i, ODelete bs, RDel (Some n) true) :: losers i n (pending s))
    with ([(i, ODelete bs, RDel (Some n) true)] ++ losers i n (pending s)).
  apply (Inv_upd s l i t _ prog); auto; psh.
  - intros u' Hu'. destruct (Hshr u' Hu') as (u & Hu & E & _). rewrite E. apply (i_vids _ H u Hu).
  - destruct (i_spec _ H) as (sp & R & L & Nx). cbn [sh] in *.
    exists (mkSpec (sp_remove n (sp_live sp)) (sp_next sp) (sp_sn sp) (sp_count sp) (sp_snaps sp)).
    cbn [sp_live sp_next]. split; [|split; [rewrite Elive, L; reflexivity|exact Nx]].
    rewrite replay_lin_app, R, replay_lin_app.
    rewrite (replay_lin_one sp i (ODelete bs) (RDel (Some n) true)
               (mkSpec (sp_remove n (sp_live sp)) (sp_next sp) (sp_sn sp) (sp_count sp) (sp_snaps sp)) (ODel (Some n) true)).
    + apply replay_losers. cbn [sp_live]. intros j bs' Hj. rewrite L, <- Elive.
      apply no_live_sp_find. apply (Hdead j bs' Hj).
    + cbn [to_spec_op sp_step]. rewrite L, <- find_live_entries.
      rewrite (find_live_unique (epoch s) (store s) bs v Hinv Hv Hd (Hkey i bs Hin)).
      cbn [option_map fst]. rewrite Hid. reflexivity.
    + cbn [res_match optN_eqb]. apply N.eqb_refl.
  - unfold TI. psh. rewrite app_length. cbn [length]. rewrite Nat.add_1_r. split; auto.
    rewrite !lin_of_app, lin_of_one_same, lin_of_losers_nil by auto. rewrite app_nil_r, Hl.
    symmetry. apply combine_step; auto.
  - intros j tj pj ne Hj Hp. pose proof (i_thr _ H j tj pj Hj Hp) as Tj. cbn [sh] in Tj.
    assert (Hcj : forall bs' n', In (j, bs', n') (pending s) -> cur tj = Some (LDel bs' n')).
    { intros bs' n' Hin'. destruct (i_pd _ H j bs' n' Hin') as [(tj' & E1 & E2) _]. cbn [sh ths] in E1.
      rewrite Hj in E1. inversion E1; subst. exact E2. }
    assert (Hframe : (forall e, In e (pending s) -> tid_of e = j -> snd e <> n) ->
                     TI (mkSh st' (next_vid s) (epoch s)
                           (lin s ++ [(i, ODelete bs, RDel (Some n) true)] ++ losers i n (pending s))
                           (drop_node n (pending s))) j tj pj).
    { intros Hne. apply (TI_frame s); psh; auto; try lia.
      - rewrite !lin_of_app, lin_of_one_other by auto. rewrite lin_of_losers_nil; [rewrite !app_nil_r; reflexivity|].
        intros e He Hej Hen. exfalso. apply (Hne e He Hej Hen).
      - intros e Hej. unfold drop_node. rewrite filter_In. split; [tauto|]. intro He. split; auto.
        apply negb_true_iff, N.eqb_neq. apply Hne; auto. }
    assert (Hnone : (forall e, In e (pending s) -> tid_of e <> j) ->
                    forall e, In e (pending s) -> tid_of e = j -> snd e <> n).
    { intros Hn e He Hej. exfalso. apply (Hn e He Hej). }
    assert (Hnone' : (forall bs' n', cur tj <> Some (LDel bs' n')) ->
                     forall e, In e (pending s) -> tid_of e <> j).
    { intros Hc [[j' bs'] n'] He Hej. cbn in Hej. subst j'. apply (Hc bs' n'). apply Hcj. exact He. }
    unfold TI in Tj. destruct (cur tj) as [[bs' pr su|bs' n']|] eqn:Ecj.
    + apply Hframe, Hnone, Hnone'. intros; congruence.
    + destruct Tj as (extra & Hoj & Htdj & [Hltj Hcasej] & Hlj).
      destruct Hcasej as [[Hinj ->]|(Hnoj & Hnaj & ->)].
      * assert (Huniq : forall e, In e (pending s) -> tid_of e = j -> e = (j, bs', n')).
        { intros e He Hej. apply (map_inj_in' tid_of (pending s)); auto. }
        destruct (N.eq_dec n' n) as [->|nn].
        -- unfold TI. psh. rewrite Ecj. exists [(ODelete bs', RDel (Some n) false)]. split; auto. split; auto. split.
           ++ cbn [loc_ok]. psh. split; auto. right. split; [|split; auto].
              intros e He Hej. unfold drop_node in He. apply filter_In in He. destruct He as [He Hf].
              rewrite (Huniq e He Hej) in Hf. cbn [snd] in Hf. rewrite N.eqb_refl in Hf. discriminate.
           ++ rewrite !lin_of_app, lin_of_one_other by auto.
              rewrite (lin_of_losers_one j i n bs' (pending s) Hpnd Hinj ne), Hlj. rewrite app_nil_r. reflexivity.
        -- apply Hframe. intros e He Hej. rewrite (Huniq e He Hej). cbn [snd]. exact nn.
      * apply Hframe, Hnone, Hnoj.
    + apply Hframe, Hnone, Hnone'. intros; congruence.
  - unfold drop_node. apply nodup_map_filter'. exact Hpnd.
  - intros j bs' n' Hin'. unfold drop_node in Hin'. apply filter_In in Hin'. destruct Hin' as [Hin' Hf].
    cbn [snd] in Hf. apply negb_true_iff, N.eqb_neq in Hf.
    destruct (i_pd _ H j bs' n' Hin') as [_ (u & Hu & Hui & Hud & Huk)]. cbn [sh] in *. split.
    + right. split; auto. intros ->.
      assert (E : (i, bs', n') = (i, bs, n)) by (apply (map_inj_in' tid_of (pending s)); auto).
      inversion E. auto.
    + exists u. repeat split; auto. apply Hkeep; auto. congruence.
  - rewrite Elive. pose proof (live_remove_len (store s) n v Hnd Hv Hid Hd). unfold cnt. psh. lia.
Qed.

Lemma Inv_win_remove s l i (t : thr) prog bs n v :
  Inv (mkSys s l) -> nth_error l i = Some t -> nth_error progs i = Some prog ->
  cur t = Some (LDel bs n) -> find_vid n (store s) = Some v -> vborn v = epoch s ->
  Inv (mkSys (mkSh (remove_vid n (store s)) (next_vid s) (epoch s)
                   (lin s ++ (i, ODelete bs, RDel (Some n) true) :: losers i n (pending s))
                   (drop_node n (pending s)))
             (upd_th i (mkThread (todo t) None (mkPers (w_gc (pers_of t)) (w_count (pers_of t) - 1))
                                 (done t ++ [RDel (Some n) true])) l)).
Proof.
  intros H Et Ep Ec Ef Hb. apply find_vid_in in Ef. destruct Ef as [Hv Hid].
  pose proof (i_store _ H) as Hinv. cbn [sh] in Hinv. pose proof (si_vids _ _ _ Hinv) as Hnd.
  assert (Hd : vdead v = 0) by (destruct (si_dead _ _ _ Hinv v Hv); lia).
  assert (Hu : forall u, In u (store s) -> vid u = n -> u = v).
  { intros u Hu Hun. apply (vid_inj (store s)); auto. congruence. }
  apply (Inv_win s l i t prog bs n v); auto; unfold remove_vid.
  - apply (remove_inv kcmp _ _ n Hinv).
  - intros u' Hu'. apply filter_In in Hu'. exists u'. repeat split; tauto.
  - intros u Hin Hun. apply filter_In in Hin. destruct Hin as [_ Hf]. rewrite Hun, N.eqb_refl in Hf. discriminate.
  - intros u Hin Hun. apply filter_In. split; auto. apply negb_true_iff, N.eqb_neq. exact Hun.
  - intros w Hw _. apply filter_In in Hw. destruct Hw as [Hw Hf]. split; auto.
    apply negb_true_iff, N.eqb_neq in Hf. exact Hf.
  - apply remove_live.
  - left. split; auto. intros x. unfold dead_now. split.
    + intros (u & Hin & Hux & Hud). apply filter_In in Hin. exists u. tauto.
    + intros (u & Hin & Hux & Hud). exists u. split; auto. apply filter_In. split; auto.
      apply negb_true_iff, N.eqb_neq. intro Hun. rewrite (Hu u Hin Hun) in Hud.
      apply (c_pos _ _ H). lia.
Qed.

Lemma Inv_win_setdead s l i (t : thr) prog bs n v :
  Inv (mkSys s l) -> nth_error l i = Some t -> nth_error progs i = Some prog ->
  cur t = Some (LDel bs n) -> find_vid n (store s) = Some v -> vborn v <> epoch s -> vdead v = 0 ->
  Inv (mkSys (mkSh (set_dead n (epoch s) (store s)) (next_vid s) (epoch s)
                   (lin s ++ (i, ODelete bs, RDel (Some n) true) :: losers i n (pending s))
                   (drop_node n (pending s)))
             (upd_th i (mkThread (todo t) None (mkPers (w_gc (pers_of t) ++ [n]) (w_count (pers_of t) - 1))
                                 (done t ++ [RDel (Some n) true])) l)).
Proof.
  intros H Et Ep Ec Ef Hb Hd. pose proof Ef as Ef0. apply find_vid_in in Ef. destruct Ef as [Hv Hid].
  pose proof (i_store _ H) as Hinv. cbn [sh] in Hinv. pose proof (si_vids _ _ _ Hinv) as Hnd.
  pose proof (i_epoch _ H) as He1. pose proof (i_epc _ H) as Hec. cbn [sh] in He1, Hec.
  assert (Hblt : vborn v < epoch s) by (pose proof (si_born _ _ _ Hinv v Hv); lia).
  assert (Hu : forall u, In u (store s) -> vid u = n -> u = v).
  { intros u Hu Hun. apply (vid_inj (store s)); auto. congruence. }
  set (f := fun v0 : ver => if vid v0 =? n then mkVer (vitem v0) (vborn v0) (epoch s) (vid v0) else v0).
  assert (Fid : forall u, vid (f u) = vid u) by (intro u; unfold f; destruct (vid u =? n); reflexivity).
  assert (Fn : forall u, vid u = n -> vdead (f u) = epoch s).
  { intros u Hun. unfold f. apply N.eqb_eq in Hun. rewrite Hun. reflexivity. }
  assert (Fo : forall u, vid u <> n -> f u = u).
  { intros u Hun. unfold f. apply N.eqb_neq in Hun. rewrite Hun. reflexivity. }
  apply (Inv_win s l i t prog bs n v); auto; unfold set_dead; fold f.
  - apply (set_dead_inv kcmp (epoch s) (store s) n v Hinv Ef0 Hd Hblt).
  - intros u' Hu'. apply in_map_iff in Hu'. destruct Hu' as (u & <- & Hin). exists u.
    unfold f. destruct (vid u =? n); cbn; repeat split; auto. right. lia.
  - intros u' Hu' Hun. apply in_map_iff in Hu'. destruct Hu' as (u & <- & Hin). rewrite Fid in Hun.
    rewrite (Fn u Hun). lia.
  - intros u Hin Hun. apply in_map_iff. exists u. split; auto.
  - intros w Hw Hwd. apply in_map_iff in Hw. destruct Hw as (u & <- & Hin).
    destruct (N.eq_dec (vid u) n) as [e|ne].
    + rewrite (Fn u e) in Hwd. lia.
    + rewrite (Fo u ne). split; auto.
  - apply set_dead_live_pos. lia.
  - right. exists n. split; auto. unfold dead_now. split.
    + intros (u & Hin & Hun & Hud). rewrite (Hu u Hin Hun) in Hud. lia.
    + intros x. split.
      * intros (w & Hw & Hwx & Hwd). apply in_map_iff in Hw. destruct Hw as (u & <- & Hin).
        rewrite Fid in Hwx. destruct (N.eq_dec (vid u) n) as [e|ne]; [right; congruence|].
        left. rewrite (Fo u ne) in Hwd. exists u. auto.
      * intros [(u & Hin & Hux & Hud)| ->].
        -- exists u. repeat split; auto. apply in_map_iff. exists u. split; auto. apply Fo.
           intro Hun. rewrite (Hu u Hin Hun) in Hud. lia.
        -- exists (f v). rewrite Fid, (Fn v Hid). repeat split; auto. apply in_map. exact Hv.
Qed.

Theorem Inv_step y i : Inv y -> Inv (stepS kcmp y i).
Proof.
  intros H. unfold stepS, step_at. destruct y as [s l]. cbn [sh ths].
  destruct (nth_error l i) as [t|] eqn:Et; [|exact H].
  destruct (get_prog s l i t H Et) as [prog Ep].
  pose proof (i_thr _ H i t prog Et Ep) as Ti. cbn [sh] in Ti. unfold TI in Ti.
  destruct (cur t) as [lc|] eqn:Ec.
  - unfold blocked. destruct Ti as (extra & Ho & Htd & Hloc & Hl).
    destruct lc as [bs pr su|bs n]; cbn [step op_of] in *.
    + destruct (adjacent pr su (store s) None) eqn:Ea.
      * cbn [finish_seg]. apply (Inv_publish s l i t prog bs pr su H Et Ep Ec Ea).
      * destruct Hloc as [_ ->]. rewrite app_nil_r in Hl.
        apply (Inv_search_put s l i t prog bs (todo t) H Et Ep Ho Htd Hl).
        apply (no_pd s l i t H Et). intros; congruence.
    + destruct (find_vid n (store s)) as [v|] eqn:Ef.
      * destruct (N.eqb_spec (vborn v) (epoch s)) as [Eb|Eb].
        -- cbn [finish_seg]. apply (Inv_win_remove s l i t prog bs n v H Et Ep Ec Ef Eb).
        -- destruct (N.eqb_spec (vdead v) 0) as [Ed|Ed].
           ++ cbn [finish_seg]. apply (Inv_win_setdead s l i t prog bs n v H Et Ep Ec Ef Eb Ed).
           ++ cbn [finish_seg]. apply (Inv_lose s l i t prog bs n H Et Ep Ec).
              intros u Hu Hun. pose proof (i_store _ H) as Hinv. cbn [sh] in Hinv.
              rewrite <- Hun in Ef. rewrite (find_vid_nodup _ u (si_vids _ _ _ Hinv) Hu) in Ef.
              inversion Ef; subst. exact Ed.
      * cbn [finish_seg]. apply (Inv_lose s l i t prog bs n H Et Ep Ec).
        intros u Hu Hun. unfold find_vid in Ef. pose proof (find_none _ _ Ef u Hu) as Hf. cbn beta in Hf.
        apply N.eqb_neq in Hf. tauto.
  - destruct (todo t) as [|o rest] eqn:Etd; [exact H|]. destruct Ti as [Htd Hl].
    symmetry in Htd. apply skipn_cons_nth in Htd. destruct Htd as [Ho Hrest]. symmetry in Hrest.
    assert (Hno : forall e, In e (pending s) -> tid_of e <> i).
    { apply (no_pd s l i t H Et). intros; congruence. }
    unfold blocked_begin. destruct o as [bs|bs|bs]; cbn [begin].
    + apply (Inv_search_put s l i t prog bs rest H Et Ep Ho Hrest Hl Hno).
    + destruct (getnode kcmp bs s) as [n|] eqn:Eg; cbn [finish_seg].
      * apply (Inv_del_begin s l i t prog bs rest n H Et Ep Ec Ho Hrest Hl Eg).
      * apply (Inv_log_complete s l i t prog (ODelete bs) (RDel None false) rest H Et Ep Ho Hrest Hl Hno).
        intros sp L. cbn [to_spec_op sp_step]. rewrite L, <- find_live_entries.
        rewrite (getnode_live bs s (i_store _ H)) in Eg.
        destruct (find_live kcmp bs (store s)); [discriminate|]. cbn [option_map].
        exists (ODel None false). split; reflexivity.
    + cbn [finish_seg].
      apply (Inv_log_complete s l i t prog (OGet bs) (RNode (getnode kcmp bs s)) rest H Et Ep Ho Hrest Hl Hno).
      intros sp L. cbn [to_spec_op sp_step]. rewrite L, <- find_live_entries.
      rewrite (getnode_live bs s (i_store _ H)).
      exists (ONode (option_map fst (option_map (fun v => (vid v, vitem v)) (find_live kcmp bs (store s))))).
      split; [reflexivity|]. destruct (find_live kcmp bs (store s)); cbn; [apply N.eqb_refl|reflexivity].
Qed.

Theorem Inv_init :
  store_inv kcmp c s0 -> (forall v, In v s0 -> vid v < nv) -> 1 <= c -> Inv (init s0 c nv progs).
Proof.
  intros Hinv Hvid Hc. unfold init. constructor; psh; auto.
  - exists (spec0 s0 nv c). cbn. auto.
  - apply map_length.
  - intros i t prog Ht Hp. rewrite nth_error_map, Hp in Ht. cbn in Ht. inversion Ht; subst t.
    unfold TI. cbn. auto.
  - constructor.
  - intros i bs n [].
  - assert (E : forall p : list (list op), sumZ cnt (map (fun p => mkThread p None (mkPers [] 0) [] : thr) p) = 0%Z).
    { induction p as [|x p IH]; cbn; auto. }
    rewrite E. lia.
  - intros Hs0.
    assert (E : forall p : list (list op), gcs (map (fun p => mkThread p None (mkPers [] 0) [] : thr) p) = []).
    { induction p as [|x p IH]; cbn; auto. }
    rewrite E. split; [constructor|]. intros i. split; [intros []|].
    intros (v & Hv & _ & Hd). apply (Hs0 v Hv Hd).
Qed.

Theorem Inv_reach sched :
  store_inv kcmp c s0 -> (forall v, In v s0 -> vid v < nv) -> 1 <= c ->
  Inv (runS kcmp (init s0 c nv progs) sched).
Proof.
  intros Hinv Hvid Hc. unfold runS. apply (Inv_run _ _ _ _ _ _ _ _ _ Inv).
  - intros y i. apply Inv_step.
  - apply Inv_init; auto.
Qed.

End Run.

Lemma fold_sumZ (l : list thr) :
  fold_right Z.add 0%Z (map (fun t => w_count (pers_of t)) l) = sumZ cnt l.
Proof. induction l as [|x l IH]; cbn; [reflexivity|]. rewrite IH. reflexivity. Qed.

Theorem nitro_linearizable : stmt_nitro_linearizable kcmp.
Proof.
  intros s0 c nv progs sched Hinv Hvid Hc y.
  pose proof (Inv_reach s0 c nv progs sched Hinv Hvid Hc) as H. fold y in H. clearbody y.
  split; [|split].
  - rewrite <- (i_epc _ _ _ _ _ H). apply (i_store _ _ _ _ _ H).
  - apply (i_spec _ _ _ _ _ H).
  - intros i t prog Ht Hp. pose proof (i_thr _ _ _ _ _ H i t prog Ht Hp) as Ti. unfold TI in Ti. cbv zeta.
    destruct (cur t) as [lc|] eqn:Ec.
    + destruct Ti as (extra & Ho & Htd & Hloc & Hl). destruct lc as [bs pr su|bs n]; cbn [loc_ok op_of] in *.
      * destruct Hloc as [_ ->]. left. rewrite app_nil_r in Hl. exact Hl.
      * destruct Hloc as [_ [[_ ->]|(_ & _ & ->)]].
        -- left. rewrite app_nil_r in Hl. exact Hl.
        -- right. exists (ODelete bs), (RDel (Some n) false). split; [exact Ho|]. split; [discriminate|exact Hl].
    + left. apply Ti.
Qed.

Theorem quiescent_counts : stmt_quiescent_counts kcmp.
Proof.
  intros s0 c nv progs sched Hinv Hvid Hc Hs0 y _.
  pose proof (Inv_reach s0 c nv progs sched Hinv Hvid Hc) as H. fold y in H. clearbody y.
  split.
  - rewrite fold_sumZ. apply (i_cnt _ _ _ _ _ H).
  - cbv zeta. apply (i_gc _ _ _ _ _ H Hs0).
Qed.

End Proofs.

Print Assumptions nitro_linearizable.
Print Assumptions quiescent_counts.
