(** The worker pool of Nitro.Visitor (nitro.go): the caller pushes the shard numbers 0..n-1 into a
    BUFFERED channel of capacity [cap], closes it and waits; [c] worker goroutines take shard numbers
    and visit the shard; a worker whose callback fails records the error and RETURNS (it stops taking
    shards).  The code allocates the channel with capacity = the requested number of shards, and the
    number of shards actually produced (kept pivots + 1) never exceeds it: cap >= n. *)
From Coq Require Import List Arith Lia Bool.
From NV Require Import Base.Sched.
Import ListNotations.

Record shared := mkSh {
  nshards : nat;
  cap : nat;
  bad : nat -> bool;              (* the callback fails somewhere in shard s *)
  next : nat;                     (* next shard the feeder will push *)
  queue : list nat;               (* buffered channel content, oldest first *)
  closed : bool;
  visited : list nat;             (* shards taken by a worker (completely or up to the failure) *)
  errors : list nat;              (* shards whose callback failed *)
  exited : nat                    (* workers that have returned (wg.Done) *)
}.

Inductive local :=
| LFeed                           (* caller: in the push loop *)
| LWait                           (* caller: channel closed, in wg.Wait *)
| LRecv.                          (* worker: blocked in / about to receive *)

Inductive op := OFeeder | OWorker.
Inductive result := RDone.
Definition pers := unit.

Section Machine.
Variable nworkers : nat.

Definition begin (tid : nat) (o : op) (p : pers) (sh : shared) : shared * pers * (local + result) :=
  match o with
  | OFeeder => (sh, p, inl LFeed)
  | OWorker => (sh, p, inl LRecv)
  end.

Definition upd (sh : shared) nx q cl vis er ex : shared := mkSh (nshards sh) (cap sh) (bad sh) nx q cl vis er ex.

Definition step (tid : nat) (l : local) (p : pers) (sh : shared) : shared * pers * (local + result) :=
  match l with
  | LFeed =>
    if (next sh <? nshards sh) then
      (* push the next shard (enabled only when the buffer is not full, see [blocked]) *)
      (upd sh (S (next sh)) (queue sh ++ [next sh]) (closed sh) (visited sh) (errors sh) (exited sh), p, inl LFeed)
    else (upd sh (next sh) (queue sh) true (visited sh) (errors sh) (exited sh), p, inl LWait)
  | LWait => (sh, p, inr RDone)        (* enabled only when every worker has exited *)
  | LRecv =>
    match queue sh with
    | s :: q =>
      if bad sh s then
        (* the callback fails: record the error and return *)
        (upd sh (next sh) q (closed sh) (visited sh ++ [s]) (errors sh ++ [s]) (S (exited sh)), p, inr RDone)
      else (upd sh (next sh) q (closed sh) (visited sh ++ [s]) (errors sh) (exited sh), p, inl LRecv)
    | [] =>
      (* channel closed and drained: the range loop ends *)
      (upd sh (next sh) [] (closed sh) (visited sh) (errors sh) (S (exited sh)), p, inr RDone)
    end
  end.

Definition blocked (l : local) (sh : shared) : bool :=
  match l with
  | LFeed => (next sh <? nshards sh) && (cap sh <=? length (queue sh))
  | LWait => negb (Nat.eqb (exited sh) nworkers)
  | LRecv => match queue sh with _ :: _ => false | [] => negb (closed sh) end
  end.
Definition blocked_begin (o : op) (sh : shared) : bool := false.

Definition sysT := sys shared local pers op result.
Definition stepS : sysT -> nat -> sysT := step_at shared local pers op result begin step blocked blocked_begin.
Definition runS : sysT -> list nat -> sysT := run shared local pers op result begin step blocked blocked_begin.

End Machine.

Definition init (n k : nat) (b : nat -> bool) (c : nat) : sysT :=
  mkSys (mkSh n k b 0 [] false [] [] 0)
        (mkThread [OFeeder] None tt [] :: repeat (mkThread [OWorker] None tt []) c).

Definition enabled (c : nat) (y : sysT) (i : nat) : bool :=
  match nth_error (ths y) i with
  | Some t =>
    match cur t, todo t with
    | Some l, _ => negb (blocked c l (sh y))
    | None, _ :: _ => true
    | None, [] => false
    end
  | None => false
  end.
