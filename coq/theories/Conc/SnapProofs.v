(** Safety of the repaired snapshot reference counting and of the in-order collector,
    for every number of snapshots, program and schedule (inductive invariant + [Inv_run]);
    refutation of the original Open by computation. *)
From Coq Require Import List Arith ZArith Lia Bool.
From NV Require Import Base.Sched Conc.Snap.
Import ListNotations.
Open Scope Z_scope.

(* [pers] is written unfolded everywhere so that terms stay syntactically uniform *)
Notation thr := (thread local (nat -> Z) op result).
Notation sysU := (sys shared local (nat -> Z) op result).

(** * Generic helpers *)

Lemma updf_same {A} (f : nat -> A) k v : updf f k v k = v.
Proof. unfold updf. now rewrite Nat.eqb_refl. Qed.

Lemma updf_other {A} (f : nat -> A) k v x : x <> k -> updf f k v x = f x.
Proof. unfold updf. intros Hx. destruct (Nat.eqb_spec x k); congruence. Qed.

Lemma sum_upd (f : thr -> Z) i t t' l :
  nth_error l i = Some t -> sumZ f (upd_th i t' l) = sumZ f l - f t + f t'.
Proof. apply sumZ_upd. Qed.

Lemma sum_nonneg (f : thr -> Z) l : (forall u, In u l -> 0 <= f u) -> 0 <= sumZ f l.
Proof.
  induction l as [|x r IH]; intros Hf; cbn [sumZ]; [lia|].
  pose proof (Hf x (or_introl eq_refl)). assert (0 <= sumZ f r) by (apply IH; intros; apply Hf; now right). lia.
Qed.

Lemma sum_ge (f : thr -> Z) l t : (forall u, In u l -> 0 <= f u) -> In t l -> f t <= sumZ f l.
Proof.
  induction l as [|x r IH]; intros Hf Hin; [destruct Hin|]. cbn [sumZ].
  assert (Hr : forall u, In u r -> 0 <= f u) by (intros; apply Hf; now right).
  destruct Hin as [->|Hin].
  - pose proof (sum_nonneg f r Hr). lia.
  - pose proof (IH Hr Hin). pose proof (Hf x (or_introl eq_refl)). lia.
Qed.

Lemma sum_zero (f : thr -> Z) l : (forall u, In u l -> f u = 0) -> sumZ f l = 0.
Proof.
  induction l as [|x r IH]; intros Hf; cbn [sumZ]; [reflexivity|].
  rewrite (Hf x (or_introl eq_refl)), IH; [reflexivity|]. intros; apply Hf; now right.
Qed.

Lemma sum_nz_ex (f : thr -> Z) l : sumZ f l <> 0 -> exists t, In t l /\ f t <> 0.
Proof.
  induction l as [|x r IH]; cbn [sumZ]; intros Hs; [congruence|].
  destruct (Z.eq_dec (f x) 0) as [E|E].
  - destruct IH as [t [Hin Ht]]; [lia|]. exists t; split; [now right|exact Ht].
  - exists x; split; [now left|exact E].
Qed.

Lemma In_upd i (t' : thr) l u : In u (upd_th i t' l) -> u = t' \/ In u l.
Proof.
  revert i. induction l as [|x r IH]; intros [|i] H; cbn in *; auto.
  - destruct H as [H|H]; auto.
  - destruct H as [H|H]; auto. destruct (IH _ H); auto.
Qed.

Lemma upd_upd i (a b : thr) l : upd_th i b (upd_th i a l) = upd_th i b l.
Proof. revert i. induction l as [|x r IH]; intros [|i]; cbn; auto. now rewrite IH. Qed.

Lemma nth_lt {A} (l : list A) i t : nth_error l i = Some t -> (i < length l)%nat.
Proof. intros H. apply nth_error_Some. congruence. Qed.

(** * Weights and the invariant *)

Definition valid (n s : nat) : Prop := (1 <= s <= n)%nat.

(** thread stands between "count reached zero" and "moved to the retired set" for snapshot s *)
Definition cdw (s : nat) (o : option local) : Z :=
  match o with Some (LCloseDec s') => if Nat.eqb s' s then 1 else 0 | _ => 0 end.
(** thread is inside the collector *)
Definition gcw (o : option local) : Z :=
  match o with Some (LGC _) => 1 | Some LGCEnd => 1 | _ => 0 end.

Lemma cdw_nonneg s o : 0 <= cdw s o.
Proof. destruct o as [[]|]; cbn; try lia. destruct (Nat.eqb _ _); lia. Qed.
Lemma gcw_nonneg o : 0 <= gcw o.
Proof. destruct o as [[]|]; cbn; lia. Qed.

Record Inv (n : nat) (y : sysU) : Prop := {
  i_n : nsnaps (sh y) = n;
  (* handles held by the threads are counted (a snapshot whose initial owner is not a thread keeps
     one extra unit forever, hence an inequality) *)
  i_ref : forall s, sumZ (fun t => pers_of t s) (ths y) <= ref (sh y) s;
  i_pers : forall t s, In t (ths y) -> 0 <= pers_of t s;
  i_z0 : forall s, zeroed (sh y) s = true -> ref (sh y) s = 0;
  i_0z : forall s, valid n s -> ref (sh y) s = 0 -> zeroed (sh y) s = true;
  i_out : forall s, ~ valid n s ->
     ref (sh y) s = 0 /\ zeroed (sh y) s = false /\ retired (sh y) s = 0%nat /\ in_ret (sh y) s = false;
  i_cd : forall s, Z.of_nat (retired (sh y) s) + sumZ (fun t => cdw s (cur t)) (ths y)
                   = if zeroed (sh y) s then 1 else 0;
  i_open : forall t s rc, In t (ths y) -> cur t = Some (LOpen s rc) -> rc <> 0;
  i_late : late_open (sh y) = false;
  i_io : forall s, in_open (sh y) s = true -> retired (sh y) s = 0%nat;
  i_gc : sumZ (fun t => gcw (cur t)) (ths y) = if gcflag (sh y) then 1 else 0;
  i_sent : sent (sh y) = seq 1 (lastgc (sh y));
  i_le : forall s, (1 <= s <= lastgc (sh y))%nat -> retired (sh y) s = 1%nat /\ in_ret (sh y) s = false;
  i_ret : forall s, in_ret (sh y) s = true -> (lastgc (sh y) < s <= n)%nat /\ retired (sh y) s = 1%nat;
  i_lg : (lastgc (sh y) <= n)%nat;
  i_cur : forall t c, In t (ths y) -> cur t = Some (LGC c) ->
     (c <= lastgc (sh y))%nat \/ in_ret (sh y) c = true;
  (* a retired snapshot stays in the retired set until the collector has passed it *)
  i_keep : forall s, retired (sh y) s = 1%nat -> (lastgc (sh y) < s)%nat -> in_ret (sh y) s = true
}.

Ltac psimp :=
  unfold pers in *;
  cbn [nsnaps ref in_open in_ret retired zeroed gcflag lastgc sent late_open sh ths
       cur pers_of todo done finish_seg set_ref mark_late] in *.

(** derived facts *)
Lemma ref_nonneg n y s : Inv n y -> 0 <= ref (sh y) s.
Proof.
  intros H. pose proof (i_ref _ _ H s).
  assert (0 <= sumZ (fun t => pers_of t s) (ths y)); [|lia].
  apply sum_nonneg. intros u Hu. apply (i_pers _ _ H); exact Hu.
Qed.

Lemma ref_ge_pers n y t s : Inv n y -> In t (ths y) -> pers_of t s <= ref (sh y) s.
Proof.
  intros H Hin. pose proof (i_ref _ _ H s).
  assert (pers_of t s <= sumZ (fun t => pers_of t s) (ths y)); [|lia].
  apply (sum_ge (fun t => pers_of t s)); [|exact Hin]. intros u Hu. apply (i_pers _ _ H); exact Hu.
Qed.

Lemma ref_pos_valid n y s : Inv n y -> ref (sh y) s <> 0 -> valid n s.
Proof.
  intros H Hr. unfold valid. destruct (le_lt_dec 1 s); [destruct (le_lt_dec s n); [lia|]|].
  all: destruct (i_out _ _ H s) as [E _]; unfold valid; [lia|congruence].
Qed.

Lemma cd_sum_nonneg (l : list thr) s : 0 <= sumZ (fun t => cdw s (cur t)) l.
Proof. apply sum_nonneg. intros; apply cdw_nonneg. Qed.

Lemma at_cd n y t s : Inv n y -> In t (ths y) -> cur t = Some (LCloseDec s) ->
  zeroed (sh y) s = true /\ retired (sh y) s = 0%nat /\ valid n s.
Proof.
  intros H Hin Hc. pose proof (i_cd _ _ H s) as E.
  assert (1 <= sumZ (fun t => cdw s (cur t)) (ths y)).
  { pose proof (sum_ge (fun t => cdw s (cur t)) (ths y) t (fun u _ => cdw_nonneg s (cur u)) Hin) as G.
    cbn beta in G. rewrite Hc in G. cbn [cdw] in G. rewrite Nat.eqb_refl in G. exact G. }
  destruct (zeroed (sh y) s) eqn:Ez; [|lia].
  split; [reflexivity|]. split; [lia|].
  unfold valid. destruct (le_lt_dec 1 s); [destruct (le_lt_dec s n); [lia|]|].
  all: destruct (i_out _ _ H s) as (_ & E' & _); unfold valid; [lia|congruence].
Qed.

(** * Preservation *)

(** the thread changes its control state without touching the shared state or its handles *)
Lemma Inv_same_sh n s l i t t' :
  Inv n (mkSys s l) -> nth_error l i = Some t ->
  (forall x, pers_of t' x = pers_of t x) ->
  (forall x, cdw x (cur t') = cdw x (cur t)) ->
  gcw (cur t') = gcw (cur t) ->
  (forall x rc, cur t' = Some (LOpen x rc) -> rc <> 0) ->
  (forall c, cur t' = Some (LGC c) -> (c <= lastgc s)%nat \/ in_ret s c = true) ->
  Inv n (mkSys s (upd_th i t' l)).
Proof.
  intros H Et Hp Hcd Hgc Hop Hcu.
  destruct H as [h1 h2 h3 h4 h5 h6 h7 h8 h9 h10 h11 h12 h13 h14 h15 h16 h17]. psimp.
  constructor; psimp; auto.
  - intros x. rewrite (sum_upd _ i t t' l Et). cbn beta. pose proof (Hp x). pose proof (h2 x). lia.
  - intros u x Hu. apply In_upd in Hu. destruct Hu as [->|Hu]; [|auto].
    rewrite Hp. apply h3. eapply nth_error_In; eauto.
  - intros x. rewrite (sum_upd _ i t t' l Et). cbn beta. pose proof (Hcd x). pose proof (h7 x). lia.
  - intros u x rc Hu. apply In_upd in Hu. destruct Hu as [->|Hu]; eauto.
  - rewrite (sum_upd _ i t t' l Et). cbn beta. lia.
  - intros u c Hu. apply In_upd in Hu. destruct Hu as [->|Hu]; eauto.
Qed.

(** the same, possibly entering or leaving the collector (only [gcflag] changes) *)
Lemma Inv_flag n s l i t t' (b : bool) :
  Inv n (mkSys s l) -> nth_error l i = Some t ->
  (forall x, pers_of t' x = pers_of t x) ->
  (forall x, cdw x (cur t') = cdw x (cur t)) ->
  gcw (cur t') - gcw (cur t) = (if b then 1 else 0) - (if gcflag s then 1 else 0) ->
  (forall x rc, cur t' = Some (LOpen x rc) -> rc <> 0) ->
  (forall c, cur t' = Some (LGC c) -> (c <= lastgc s)%nat \/ in_ret s c = true) ->
  Inv n (mkSys (mkSh (nsnaps s) (ref s) (in_open s) (in_ret s) (retired s) (zeroed s) b
                     (lastgc s) (sent s) (late_open s)) (upd_th i t' l)).
Proof.
  intros H Et Hp Hcd Hgc Hop Hcu.
  destruct H as [h1 h2 h3 h4 h5 h6 h7 h8 h9 h10 h11 h12 h13 h14 h15 h16 h17]. psimp.
  constructor; psimp; auto.
  - intros x. rewrite (sum_upd _ i t t' l Et). cbn beta. pose proof (Hp x). pose proof (h2 x). lia.
  - intros u x Hu. apply In_upd in Hu. destruct Hu as [->|Hu]; [|auto].
    rewrite Hp. apply h3. eapply nth_error_In; eauto.
  - intros x. rewrite (sum_upd _ i t t' l Et). cbn beta. pose proof (Hcd x). pose proof (h7 x). lia.
  - intros u x rc Hu. apply In_upd in Hu. destruct Hu as [->|Hu]; eauto.
  - rewrite (sum_upd _ i t t' l Et). cbn beta. lia.
  - intros u c Hu. apply In_upd in Hu. destruct Hu as [->|Hu]; eauto.
Qed.

Lemma find_ret_some s lo c : first_ret_from s lo = Some c ->
  in_ret s c = true /\ (lo < c <= nsnaps s)%nat /\ forall x, (lo < x < c)%nat -> in_ret s x = false.
Proof.
  unfold first_ret_from. intros H.
  assert (G : forall k m, find (fun x => in_ret s x) (seq k m) = Some c ->
     in_ret s c = true /\ (k <= c < k + m)%nat /\ forall x, (k <= x < c)%nat -> in_ret s x = false).
  { intros k m. revert k. induction m as [|m IH]; intros k Hf; cbn [seq find] in Hf; [discriminate|].
    destruct (in_ret s k) eqn:Ek.
    - inversion Hf; subst. split; [exact Ek|]. split; [lia|]. intros; lia.
    - destruct (IH _ Hf) as (A & B & C). split; [exact A|]. split; [lia|].
      intros x Hx. destruct (Nat.eq_dec x k) as [->|Ne]; [exact Ek|]. apply C. lia. }
  destruct (G _ _ H) as (A & B & C). split; [exact A|]. split; [|intros; apply C; lia].
  lia.
Qed.

Lemma find_ret_none s lo : first_ret_from s lo = None ->
  forall x, (lo < x <= nsnaps s)%nat -> in_ret s x = false.
Proof.
  unfold first_ret_from. intros H x Hx.
  apply (find_none _ _ H x). apply in_seq. lia.
Qed.

(** try-lock and SeekFirst, run by a thread that is outside any operation segment *)
Lemma gc_enter_pres n s l i t rest s' r :
  Inv n (mkSys s l) -> nth_error l i = Some t -> cur t = None ->
  gc_enter s = (s', r) ->
  Inv n (mkSys s' (upd_th i (finish_seg _ _ _ _ t rest (pers_of t) r) l)).
Proof.
  intros H Et Ec Hg. unfold gc_enter in Hg.
  destruct (gcflag s) eqn:Ef.
  - inversion Hg; subst s' r; clear Hg.
    apply (Inv_same_sh n s l i t); auto; psimp; rewrite ?Ec; auto; intros; discriminate.
  - match type of Hg with context [first_ret_from ?a 0] => destruct (first_ret_from a 0) as [c|] eqn:Ff end.
    + inversion Hg; subst s' r; clear Hg.
      apply find_ret_some in Ff. destruct Ff as (A & _ & _). psimp.
      apply (Inv_flag n s l i t _ true); auto; psimp; rewrite ?Ec, ?Ef; cbn [cdw gcw]; auto.
      * intros; discriminate.
      * intros c0 Hc0. inversion Hc0; subst. now right.
    + inversion Hg; subst s' r; clear Hg.
      apply (Inv_flag n s l i t _ true); auto; psimp; rewrite ?Ec, ?Ef; cbn [cdw gcw]; auto;
        intros; discriminate.
Qed.

Ltac inu Hu := apply In_upd in Hu; destruct Hu as [->|Hu].
Ltac eqs x k := destruct (Nat.eq_dec x k) as [->|?]; [rewrite ?updf_same in *|rewrite ?updf_other in * by assumption].

(** Close: the decrement reaches zero *)
Lemma Inv_close_zero n s l i t t' s0 :
  Inv n (mkSys s l) -> nth_error l i = Some t -> cur t = None ->
  0 < pers_of t s0 -> ref s s0 - 1 = 0 ->
  cur t' = Some (LCloseDec s0) ->
  (forall x, pers_of t' x = updf (pers_of t) s0 (pers_of t s0 - 1) x) ->
  Inv n (mkSys (mkSh (nsnaps s) (updf (ref s) s0 (ref s s0 - 1)) (in_open s) (in_ret s) (retired s)
                     (updf (zeroed s) s0 true) (gcflag s) (lastgc s) (sent s) (late_open s))
               (upd_th i t' l)).
Proof.
  intros H Et Ec Hp Hr Ec' Hp'.
  assert (Hv : valid n s0) by (apply (ref_pos_valid n _ s0 H); psimp; lia).
  assert (Hz : zeroed s s0 = false).
  { destruct (zeroed s s0) eqn:E; [|reflexivity]. pose proof (i_z0 _ _ H s0 E). psimp. lia. }
  assert (Hin : In t l) by (eapply nth_error_In; eauto).
  destruct H as [h1 h2 h3 h4 h5 h6 h7 h8 h9 h10 h11 h12 h13 h14 h15 h16 h17]. psimp.
  constructor; psimp; auto.
  - intros x. rewrite (sum_upd _ i t t' l Et). cbn beta. rewrite Hp'. pose proof (h2 x).
    eqs x s0; lia.
  - intros u x Hu. inu Hu; [|auto]. rewrite Hp'. pose proof (h3 t x Hin). eqs x s0; lia.
  - intros x. eqs x s0; auto.
  - intros x. eqs x s0; auto.
  - intros x Hx. assert (x <> s0) by (intros ->; auto). rewrite !updf_other by assumption. auto.
  - intros x. rewrite (sum_upd _ i t t' l Et). cbn beta. rewrite Ec, Ec'. cbn [cdw].
    pose proof (h7 x) as E. destruct (Nat.eqb_spec s0 x) as [->|Ne].
    + rewrite updf_same. rewrite Hz in E. lia.
    + rewrite updf_other by congruence. lia.
  - intros u x rc Hu. inu Hu; [congruence|eauto].
  - rewrite (sum_upd _ i t t' l Et). cbn beta. rewrite Ec, Ec'. cbn [gcw]. lia.
  - intros u c Hu. inu Hu; [congruence|eauto].
Qed.

(** Close: the count stays positive *)
Lemma Inv_close_nz n s l i t t' s0 :
  Inv n (mkSys s l) -> nth_error l i = Some t -> cur t = None ->
  0 < pers_of t s0 -> ref s s0 - 1 <> 0 ->
  cur t' = None ->
  (forall x, pers_of t' x = updf (pers_of t) s0 (pers_of t s0 - 1) x) ->
  Inv n (mkSys (mkSh (nsnaps s) (updf (ref s) s0 (ref s s0 - 1)) (in_open s) (in_ret s) (retired s)
                     (zeroed s) (gcflag s) (lastgc s) (sent s) (late_open s))
               (upd_th i t' l)).
Proof.
  intros H Et Ec Hp Hr Ec' Hp'.
  assert (Hin : In t l) by (eapply nth_error_In; eauto).
  assert (Hge : pers_of t s0 <= ref s s0) by (apply (ref_ge_pers n _ t s0 H Hin)).
  assert (Hv : valid n s0) by (apply (ref_pos_valid n _ s0 H); psimp; lia).
  assert (Hz : zeroed s s0 = false).
  { destruct (zeroed s s0) eqn:E; [|reflexivity]. pose proof (i_z0 _ _ H s0 E). psimp. lia. }
  destruct H as [h1 h2 h3 h4 h5 h6 h7 h8 h9 h10 h11 h12 h13 h14 h15 h16 h17]. psimp.
  constructor; psimp; auto.
  - intros x. rewrite (sum_upd _ i t t' l Et). cbn beta. rewrite Hp'. pose proof (h2 x).
    eqs x s0; lia.
  - intros u x Hu. inu Hu; [|auto]. rewrite Hp'. pose proof (h3 t x Hin). eqs x s0; lia.
  - intros x. eqs x s0; auto; congruence.
  - intros x. eqs x s0; auto; intros; lia.
  - intros x Hx. assert (x <> s0) by (intros ->; auto). rewrite !updf_other by assumption. auto.
  - intros x. rewrite (sum_upd _ i t t' l Et). cbn beta. rewrite Ec, Ec'. pose proof (h7 x). lia.
  - intros u x rc Hu. inu Hu; [congruence|eauto].
  - rewrite (sum_upd _ i t t' l Et). cbn beta. rewrite Ec, Ec'. lia.
  - intros u c Hu. inu Hu; [congruence|eauto].
Qed.

(** Open: the CAS succeeds *)
Lemma Inv_open_cas n s l i t t' s0 rc :
  Inv n (mkSys s l) -> nth_error l i = Some t -> cur t = Some (LOpen s0 rc) ->
  ref s s0 = rc ->
  cur t' = None ->
  (forall x, pers_of t' x = updf (pers_of t) s0 (pers_of t s0 + 1) x) ->
  Inv n (mkSys (mkSh (nsnaps s) (updf (ref s) s0 (rc + 1)) (in_open s) (in_ret s) (retired s)
                     (zeroed s) (gcflag s) (lastgc s) (sent s) (late_open s || zeroed s s0))
               (upd_th i t' l)).
Proof.
  intros H Et Ec Hr Ec' Hp'.
  assert (Hin : In t l) by (eapply nth_error_In; eauto).
  assert (Hrc : rc <> 0) by (apply (i_open _ _ H t s0 rc Hin Ec)).
  assert (Hge : 0 <= ref s s0) by (apply (ref_nonneg n _ s0 H)).
  assert (Hv : valid n s0) by (apply (ref_pos_valid n _ s0 H); psimp; lia).
  assert (Hz : zeroed s s0 = false).
  { destruct (zeroed s s0) eqn:E; [|reflexivity]. pose proof (i_z0 _ _ H s0 E). psimp. lia. }
  destruct H as [h1 h2 h3 h4 h5 h6 h7 h8 h9 h10 h11 h12 h13 h14 h15 h16 h17]. psimp.
  constructor; psimp; auto.
  - intros x. rewrite (sum_upd _ i t t' l Et). cbn beta. rewrite Hp'. pose proof (h2 x).
    eqs x s0; lia.
  - intros u x Hu. inu Hu; [|auto]. rewrite Hp'. pose proof (h3 t x Hin). eqs x s0; lia.
  - intros x. eqs x s0; auto; congruence.
  - intros x. eqs x s0; auto; intros; lia.
  - intros x Hx. assert (x <> s0) by (intros ->; auto). rewrite !updf_other by assumption. auto.
  - intros x. rewrite (sum_upd _ i t t' l Et). cbn beta. rewrite Ec, Ec'. cbn [cdw]. pose proof (h7 x). lia.
  - intros u x rc' Hu. inu Hu; [congruence|eauto].
  - rewrite h9, Hz. reflexivity.
  - rewrite (sum_upd _ i t t' l Et). cbn beta. rewrite Ec, Ec'. cbn [gcw]. lia.
  - intros u c Hu. inu Hu; [congruence|eauto].
Qed.

(** Close, second segment: move the snapshot from the open set to the retired set *)
Lemma Inv_retire n s l i t t' s0 :
  Inv n (mkSys s l) -> nth_error l i = Some t -> cur t = Some (LCloseDec s0) ->
  cur t' = None ->
  (forall x, pers_of t' x = pers_of t x) ->
  Inv n (mkSys (mkSh (nsnaps s) (ref s) (updf (in_open s) s0 false) (updf (in_ret s) s0 true)
                     (updf (retired s) s0 (S (retired s s0))) (zeroed s) (gcflag s) (lastgc s) (sent s)
                     (late_open s))
               (upd_th i t' l)).
Proof.
  intros H Et Ec Ec' Hp'.
  assert (Hin : In t l) by (eapply nth_error_In; eauto).
  destruct (at_cd n _ t s0 H Hin Ec) as (Hz & Hr0 & Hv). psimp.
  assert (Hlg : (lastgc s < s0)%nat).
  { destruct (le_lt_dec s0 (lastgc s)) as [Hle|]; [|assumption].
    destruct (i_le _ _ H s0) as [E _]; psimp; [unfold valid in Hv; lia|congruence]. }
  destruct H as [h1 h2 h3 h4 h5 h6 h7 h8 h9 h10 h11 h12 h13 h14 h15 h16 h17]. psimp.
  constructor; psimp; auto.
  - intros x. rewrite (sum_upd _ i t t' l Et). cbn beta. pose proof (Hp' x). pose proof (h2 x). lia.
  - intros u x Hu. inu Hu; [|auto]. rewrite Hp'. auto.
  - intros x Hx. assert (x <> s0) by (intros ->; auto). rewrite !updf_other by assumption. auto.
  - intros x. rewrite (sum_upd _ i t t' l Et). cbn beta. rewrite Ec, Ec'. cbn [cdw].
    pose proof (h7 x) as E. destruct (Nat.eqb_spec s0 x) as [->|Ne].
    + rewrite updf_same. rewrite Hz in *. lia.
    + rewrite updf_other by congruence. lia.
  - intros u x rc Hu. inu Hu; [congruence|eauto].
  - intros x. eqs x s0; auto; congruence.
  - rewrite (sum_upd _ i t t' l Et). cbn beta. rewrite Ec, Ec'. cbn [gcw]. lia.
  - intros x Hx. assert (x <> s0) by lia. rewrite !updf_other by assumption. auto.
  - intros x. eqs x s0; auto. intros _. unfold valid in Hv. lia.
  - intros u c Hu. inu Hu; [congruence|]. intros Hc. destruct (h16 u c Hu Hc) as [A|A]; [now left|right].
    eqs c s0; auto.
  - intros x. eqs x s0; auto.
Qed.

(** collectDead: one loop iteration handing over snapshot [c = lastgc + 1] *)
Lemma Inv_advance n s l i t t' c :
  Inv n (mkSys s l) -> nth_error l i = Some t -> cur t = Some (LGC c) ->
  c = S (lastgc s) ->
  (forall x, pers_of t' x = pers_of t x) ->
  (forall x, cdw x (cur t') = 0) -> gcw (cur t') = 1 ->
  (forall x rc, cur t' <> Some (LOpen x rc)) ->
  (forall c', cur t' = Some (LGC c') -> c' <> c /\ in_ret s c' = true) ->
  Inv n (mkSys (mkSh (nsnaps s) (ref s) (in_open s) (updf (in_ret s) c false) (retired s) (zeroed s)
                     (gcflag s) c (sent s ++ [c]) (late_open s))
               (upd_th i t' l)).
Proof.
  intros H Et Ec Hc Hp' Hcd Hgc Hop Hcu.
  assert (Hin : In t l) by (eapply nth_error_In; eauto).
  assert (Hir : in_ret s c = true).
  { destruct (i_cur _ _ H t c Hin Ec) as [A|A]; psimp; [lia|exact A]. }
  destruct (i_ret _ _ H c Hir) as [Hcn Hrc]. psimp.
  destruct H as [h1 h2 h3 h4 h5 h6 h7 h8 h9 h10 h11 h12 h13 h14 h15 h16 h17]. psimp.
  constructor; psimp; auto.
  - intros x. rewrite (sum_upd _ i t t' l Et). cbn beta. pose proof (Hp' x). pose proof (h2 x). lia.
  - intros u x Hu. inu Hu; [|auto]. rewrite Hp'. auto.
  - intros x Hx. destruct (h6 x Hx) as (A & B & C & D). repeat split; auto. eqs x c; auto.
  - intros x. rewrite (sum_upd _ i t t' l Et). cbn beta. rewrite Ec, Hcd. cbn [cdw].
    pose proof (h7 x). lia.
  - intros u x rc Hu. inu Hu; [intros E; destruct (Hop _ _ E)|eauto].
  - rewrite (sum_upd _ i t t' l Et). cbn beta. rewrite Ec, Hgc. cbn [gcw]. lia.
  - rewrite h12, Hc. rewrite seq_S. reflexivity.
  - intros x Hx. eqs x c; auto. apply h13. lia.
  - intros x. eqs x c; [congruence|]. intros Hx. destruct (h14 x Hx). lia.
  - lia.
  - intros u c0 Hu. inu Hu.
    + intros E. destruct (Hcu _ E) as [A B]. right. rewrite updf_other by assumption. exact B.
    + intros E. destruct (h16 u c0 Hu E) as [A|A]; [left; lia|].
      destruct (Nat.eq_dec c0 c) as [->|Ne]; [left; lia|right]. rewrite updf_other by assumption. exact A.
  - intros x Hx Hl. rewrite updf_other by lia. apply h17; [assumption|lia].
Qed.

Lemma at_gc n y t : Inv n y -> In t (ths y) -> gcw (cur t) = 1 -> gcflag (sh y) = true.
Proof.
  intros H Hin Hw. pose proof (i_gc _ _ H) as E.
  pose proof (sum_ge (fun t => gcw (cur t)) (ths y) t (fun u _ => gcw_nonneg (cur u)) Hin) as G.
  cbn beta in G. destruct (gcflag (sh y)); [reflexivity|lia].
Qed.

Theorem Inv_step n (y : sysU) i : Inv n y -> Inv n (stepS true y i).
Proof.
  intros H. unfold stepS, step_at.
  destruct y as [s l]. psimp.
  destruct (nth_error l i) as [t|] eqn:Et; [|exact H].
  assert (Hin : In t l) by (eapply nth_error_In; eauto).
  destruct (cur t) as [lc|] eqn:Ec.
  - unfold blocked. destruct lc as [s0 rc|s0|c|]; cbn [step].
    + (* Open: CAS or reload *)
      destruct (Z.eqb_spec (ref s s0) rc) as [E|E].
      * apply (Inv_open_cas n s l i t _ s0 rc H Et Ec E); psimp; auto.
      * destruct (Z.eqb_spec (ref s s0) 0) as [E0|E0].
        -- apply (Inv_same_sh n s l i t); psimp; rewrite ?Ec; auto; intros; discriminate.
        -- apply (Inv_same_sh n s l i t); psimp; rewrite ?Ec; auto; intros; try discriminate.
           congruence.
    + (* Close, second segment *)
      match goal with |- context [gc_enter ?a] => destruct (gc_enter a) as [sh2 r] eqn:Eg end.
      set (tmid := mkThread (todo t) None (pers_of t) (done t) : thr).
      pose proof (Inv_retire n s l i t tmid s0 H Et Ec eq_refl (fun _ => eq_refl)) as Hm.
      pose proof (gc_enter_pres n _ _ i tmid (todo t) sh2 r Hm
                    (nth_upd_same _ _ _ _ i tmid l (nth_lt _ _ _ Et)) eq_refl Eg) as Hf.
      rewrite upd_upd in Hf. exact Hf.
    + (* collectDead iteration *)
      destruct (Nat.eqb_spec c (S (lastgc s))) as [E|E].
      * match goal with |- context [first_ret_from ?a c] => destruct (first_ret_from a c) as [c'|] eqn:Ff end.
        -- apply find_ret_some in Ff. destruct Ff as (A & _ & _). psimp.
           assert (c' <> c) by (intros ->; rewrite updf_same in A; discriminate).
           rewrite updf_other in A by assumption.
           apply (Inv_advance n s l i t _ c H Et Ec E); psimp; auto; intros; try discriminate.
           split; congruence.
        -- apply (Inv_advance n s l i t _ c H Et Ec E); psimp; auto; intros; discriminate.
      * apply (Inv_same_sh n s l i t); psimp; rewrite ?Ec; auto; intros; discriminate.
    + (* flag reset *)
      assert (Hf : gcflag s = true) by (apply (at_gc n _ t H Hin); rewrite Ec; reflexivity).
      apply (Inv_flag n s l i t _ false); psimp; rewrite ?Ec, ?Hf; auto; intros; discriminate.
  - destruct (todo t) as [|o rest] eqn:Etd; [exact H|].
    unfold blocked_begin. destruct o as [s0|s0|]; cbn [begin].
    + (* Open: load and zero test *)
      destruct (Z.eqb_spec (ref s s0) 0) as [E0|E0].
      * apply (Inv_same_sh n s l i t); psimp; rewrite ?Ec; auto; intros; discriminate.
      * apply (Inv_same_sh n s l i t); psimp; rewrite ?Ec; auto; intros; try discriminate.
        congruence.
    + (* Close: decrement *)
      destruct (Z.leb_spec (pers_of t s0) 0) as [Hp|Hp].
      * apply (Inv_same_sh n s l i t); psimp; rewrite ?Ec; auto; intros; discriminate.
      * destruct (Z.eqb_spec (ref s s0 - 1) 0) as [E0|E0].
        -- apply (Inv_close_zero n s l i t _ s0 H Et Ec Hp E0); psimp; auto.
        -- apply (Inv_close_nz n s l i t _ s0 H Et Ec Hp E0); psimp; auto.
    + (* GC *)
      destruct (gc_enter s) as [sh2 r] eqn:Eg.
      apply (gc_enter_pres n s l i t rest sh2 r H Et Ec Eg).
Qed.

(** * Initial state *)

Lemma init_sum n owner s : forall progs a,
  let l := map (fun ip : nat * list op => mkThread (snd ip) None (init_pers n owner (fst ip)) [] : thr)
               (combine (seq a (length progs)) progs) in
  0 <= sumZ (fun t => pers_of t s) l <= (if (1 <=? s)%nat && (s <=? n)%nat then 1 else 0) /\
  ((owner s < a)%nat -> sumZ (fun t => pers_of t s) l = 0).
Proof.
  induction progs as [|p r IH]; intros a; cbn [length seq combine map sumZ].
  - destruct ((1 <=? s)%nat && (s <=? n)%nat); lia.
  - specialize (IH (S a)). cbn zeta in IH. cbn [pers_of fst snd].
    match type of IH with context [sumZ ?f ?l] => set (S' := sumZ f l) in * end.
    assert (Hh : init_pers n owner a s
                 = if (1 <=? s)%nat && (s <=? n)%nat && Nat.eqb (owner s) a then 1 else 0) by reflexivity.
    rewrite Hh. clearbody S'. destruct IH as [A B].
    destruct (Nat.eqb_spec (owner s) a) as [E|E].
    + rewrite B by lia. destruct ((1 <=? s)%nat && (s <=? n)%nat); cbn [andb]; lia.
    + rewrite andb_false_r. split; [lia|]. intros. rewrite B; lia.
Qed.

Lemma init_cur n owner progs (t : thr) : In t (ths (init n owner progs : sysU)) -> cur t = None.
Proof.
  unfold init. cbn [ths]. intros H. apply in_map_iff in H. destruct H as [ip [<- _]]. reflexivity.
Qed.

Lemma init_pers_nonneg n owner progs (t : thr) s : In t (ths (init n owner progs : sysU)) -> 0 <= pers_of t s.
Proof.
  unfold init. cbn [ths]. intros H. apply in_map_iff in H. destruct H as [ip [<- _]].
  cbn [pers_of]. unfold init_pers. destruct (_ && _); lia.
Qed.

Lemma valid_b n s : valid n s -> (1 <=? s)%nat && (s <=? n)%nat = true.
Proof.
  unfold valid. intros H. apply andb_true_iff. split; apply Nat.leb_le; lia.
Qed.

Lemma nvalid_b n s : ~ valid n s -> (1 <=? s)%nat && (s <=? n)%nat = false.
Proof.
  unfold valid. intros H. apply andb_false_iff.
  destruct (Nat.leb_spec 1 s); [|now left]. destruct (Nat.leb_spec s n); [lia|now right].
Qed.

Theorem Inv_init n owner progs : Inv n (init n owner progs).
Proof.
  constructor.
  - reflexivity.
  - intros s. exact (proj2 (proj1 (init_sum n owner s progs 0%nat))).
  - intros t s. apply init_pers_nonneg.
  - cbn. discriminate.
  - intros s Hv. cbn [init sh init_sh ref zeroed]. rewrite (valid_b _ _ Hv). lia.
  - intros s Hv. cbn [init sh init_sh ref zeroed retired in_ret]. rewrite (nvalid_b _ _ Hv). auto.
  - intros s. rewrite sum_zero; [reflexivity|]. intros u Hu. cbn beta. now rewrite (init_cur _ _ _ _ Hu).
  - intros t s rc Hin Hc. rewrite (init_cur _ _ _ _ Hin) in Hc. discriminate.
  - reflexivity.
  - reflexivity.
  - rewrite sum_zero; [reflexivity|]. intros u Hu. cbn beta. now rewrite (init_cur _ _ _ _ Hu).
  - reflexivity.
  - cbn. intros; lia.
  - cbn. discriminate.
  - cbn. lia.
  - intros t c Hin Hc. rewrite (init_cur _ _ _ _ Hin) in Hc. discriminate.
  - cbn. discriminate.
Qed.

Theorem Inv_reach n owner progs sched : Inv n (runS true (init n owner progs) sched).
Proof.
  unfold runS. apply (Inv_run _ _ _ _ _ _ _ _ _ (Inv n)).
  - intros y i. apply Inv_step.
  - apply Inv_init.
Qed.

(** * The theorems *)

Lemma quiescent_cur (y : sysU) : quiescent shared local pers op result y = true ->
  forall t : thr, In t (ths y) -> cur t = None.
Proof.
  unfold quiescent. intros H t Hin. rewrite forallb_forall in H. specialize (H t Hin).
  unfold th_finished in H. unfold pers in *. destruct (cur t); [discriminate|reflexivity].
Qed.

Theorem refcount_sound : forall n owner progs sched,
  let y := runS true (init n owner progs) sched in
  late_open (sh y) = false /\
  (forall s, zeroed (sh y) s = true -> ref (sh y) s = 0) /\
  (forall s, (1 <= s <= n)%nat -> ref (sh y) s = 0 -> zeroed (sh y) s = true) /\
  (forall s, (retired (sh y) s <= 1)%nat) /\
  (forall s, in_open (sh y) s = true -> zeroed (sh y) s = false \/ exists t, In t (ths y) /\ cur t = Some (LCloseDec s)) /\
  (quiescent shared local pers op result y = true ->
     forall s, (1 <= s <= n)%nat -> ref (sh y) s = 0 -> retired (sh y) s = 1%nat).
Proof.
  intros n owner progs sched y. pose proof (Inv_reach n owner progs sched) as H. fold y in H. clearbody y. unfold sysT, pers in *.
  split; [exact (i_late _ _ H)|]. split; [exact (i_z0 _ _ H)|]. split; [exact (i_0z _ _ H)|].
  split; [|split].
  - intros s. pose proof (i_cd _ _ H s) as E. pose proof (cd_sum_nonneg (ths y) s).
    destruct (zeroed (sh y) s); lia.
  - intros s Hio. pose proof (i_io _ _ H s Hio) as Hr. pose proof (i_cd _ _ H s) as E.
    destruct (zeroed (sh y) s); [right|now left].
    destruct (sum_nz_ex (fun t => cdw s (cur t)) (ths y)) as [t [Hin Ht]]; [lia|].
    exists t. split; [exact Hin|]. cbn beta in Ht.
    destruct (cur t) as [[x rc|x|c|]|]; cbn [cdw] in Ht; try congruence.
    destruct (Nat.eqb_spec x s); congruence.
  - intros Hq s Hv Hr. pose proof (i_0z _ _ H s Hv Hr) as Hz. pose proof (i_cd _ _ H s) as E.
    rewrite Hz in E. rewrite sum_zero in E; [lia|].
    intros u Hu. cbn beta. now rewrite (quiescent_cur y Hq u Hu).
Qed.

Theorem collector_safe : forall n owner progs sched,
  let y := runS true (init n owner progs) sched in
  sent (sh y) = seq 1 (lastgc (sh y)) /\
  (forall s, In s (sent (sh y)) -> retired (sh y) s = 1%nat /\ in_ret (sh y) s = false) /\
  (forall s, in_ret (sh y) s = true -> (lastgc (sh y) < s <= n)%nat /\ retired (sh y) s = 1%nat) /\
  (lastgc (sh y) <= n)%nat.
Proof.
  intros n owner progs sched y. pose proof (Inv_reach n owner progs sched) as H. fold y in H. clearbody y. unfold sysT, pers in *.
  split; [exact (i_sent _ _ H)|]. split; [|split; [exact (i_ret _ _ H)|exact (i_lg _ _ H)]].
  intros s Hs. rewrite (i_sent _ _ H) in Hs. apply in_seq in Hs. apply (i_le _ _ H). lia.
Qed.

(** the original Open (load; add) lets a snapshot come back to life and be retired twice *)
Example resurrection_refuted :
  let y := runS false (init 1 (fun _ => 0%nat) [[OClose 1]; [OOpen 1; OClose 1]]) [1;0;1;0;0;0;1;1;1;1]%nat in
  late_open (sh y) = true /\ retired (sh y) 1%nat = 2%nat.
Proof. vm_compute. split; reflexivity. Qed.

(** * Collector completeness at quiescence *)

(** a sequential GC pass: the machine's own collector segments, iterated with fuel *)
Fixpoint gc_loop (fuel : nat) (l : local) (sh : shared) : shared :=
  match fuel with
  | O => sh
  | S f =>
    match step true 0 l (fun _ => 0) sh with
    | (sh', _, inl l') => gc_loop f l' sh'
    | (sh', _, inr _) => sh'
    end
  end.

Definition gc_pass (sh : shared) : shared :=
  match gc_enter sh with
  | (sh', inl l) => gc_loop (S (S (nsnaps sh))) l sh'
  | (sh', inr _) => sh'
  end.

(** the part of the invariant the sequential pass relies on *)
Record GI (n : nat) (s : shared) : Prop := {
  g_n : nsnaps s = n;
  g_ret : forall x, in_ret s x = true -> (lastgc s < x <= n)%nat;
  g_keep : forall x, retired s x = 1%nat -> (lastgc s < x)%nat -> in_ret s x = true
}.

Definition all_retired (s : shared) (k : nat) : Prop := forall x, (1 <= x <= k)%nat -> retired s x = 1%nat.

Definition loop_pre (n fuel : nat) (l : local) (s : shared) : Prop :=
  match l with
  | LGC c => in_ret s c = true /\ (forall x, (lastgc s < x < c)%nat -> in_ret s x = false) /\
             (S (n - lastgc s) < fuel)%nat
  | LGCEnd => (forall k, (k <= n)%nat -> all_retired s k -> (k <= lastgc s)%nat) /\ (0 < fuel)%nat
  | _ => False
  end.

Lemma gc_loop_spec n : forall fuel l s,
  GI n s -> loop_pre n fuel l s ->
  gcflag (gc_loop fuel l s) = false /\
  forall k, (k <= n)%nat -> all_retired s k -> (k <= lastgc (gc_loop fuel l s))%nat.
Proof.
  induction fuel as [|f IH]; intros l s G P.
  - destruct l; cbn [loop_pre] in P; try contradiction; lia.
  - destruct G as [g1 g2 g3]. destruct l as [x rc|x|c|]; cbn [loop_pre] in P; try contradiction.
    + destruct P as (Pc & Pm & Pf). destruct (g2 c Pc) as [Hlc Hcn].
      cbn [gc_loop step]. destruct (Nat.eqb_spec c (S (lastgc s))) as [E|E].
      * match goal with |- context [first_ret_from ?a c] =>
          set (s1 := a); destruct (first_ret_from s1 c) as [c'|] eqn:Ff end.
        -- apply find_ret_some in Ff. destruct Ff as (A & B & C).
           refine (IH (LGC c') s1 _ _).
           ++ subst s1. constructor; psimp; auto.
              ** intros x. destruct (Nat.eq_dec x c) as [->|Ne]; [rewrite updf_same; discriminate|].
                 rewrite updf_other by assumption. intros Hx. pose proof (g2 x Hx). lia.
              ** intros x Hr Hl. rewrite updf_other by lia. apply g3; [assumption|lia].
           ++ cbn [loop_pre]. split; [exact A|]. split; [exact C|]. subst s1. psimp. lia.
        -- pose proof (find_ret_none _ _ Ff) as Fn.
           refine (IH LGCEnd s1 _ _).
           ++ subst s1. constructor; psimp; auto.
              ** intros x. destruct (Nat.eq_dec x c) as [->|Ne]; [rewrite updf_same; discriminate|].
                 rewrite updf_other by assumption. intros Hx. pose proof (g2 x Hx). lia.
              ** intros x Hr Hl. rewrite updf_other by lia. apply g3; [assumption|lia].
           ++ cbn [loop_pre]. split; [|lia]. intros k Hk Ha. subst s1. psimp.
              destruct (le_lt_dec k c) as [|Hlt]; [assumption|exfalso].
              assert (Hr : retired s (S c) = 1%nat) by (apply Ha; lia).
              assert (Hi : in_ret s (S c) = true) by (apply g3; [assumption|lia]).
              specialize (Fn (S c)). rewrite updf_other in Fn by lia. rewrite Fn in Hi; [discriminate|lia].
      * apply (IH LGCEnd s); [constructor; assumption|].
        cbn [loop_pre]. split; [|lia]. intros k Hk Ha.
        destruct (le_lt_dec k (lastgc s)) as [|Hlt]; [assumption|exfalso].
        assert (Hr : retired s (S (lastgc s)) = 1%nat) by (apply Ha; lia).
        assert (Hi : in_ret s (S (lastgc s)) = true) by (apply g3; [assumption|lia]).
        rewrite Pm in Hi; [discriminate|lia].
    + destruct P as [Pk _]. cbn [gc_loop step]. psimp. split; [reflexivity|]. exact Pk.
Qed.

Lemma gc_pass_spec n s : GI n s -> gcflag s = false ->
  gcflag (gc_pass s) = false /\
  forall k, (k <= n)%nat -> all_retired s k -> (k <= lastgc (gc_pass s))%nat.
Proof.
  intros G Hf. unfold gc_pass, gc_enter. rewrite Hf.
  pose proof G as [g1 g2 g3].
  match goal with |- context [first_ret_from ?a 0] =>
    set (s1 := a); destruct (first_ret_from s1 0) as [c|] eqn:Ff end.
  - apply find_ret_some in Ff. destruct Ff as (A & B & C).
    apply (gc_loop_spec n _ (LGC c) s1).
    + subst s1. constructor; psimp; auto.
    + cbn [loop_pre]. split; [exact A|]. split; [intros; apply C; lia|]. subst s1. psimp. lia.
  - pose proof (find_ret_none _ _ Ff) as Fn.
    apply (gc_loop_spec n _ LGCEnd s1).
    + subst s1. constructor; psimp; auto.
    + cbn [loop_pre]. split; [|lia]. intros k Hk Ha. subst s1. psimp.
      destruct (le_lt_dec k (lastgc s)) as [|Hlt]; [assumption|exfalso].
      assert (Hr : retired s (S (lastgc s)) = 1%nat) by (apply Ha; lia).
      assert (Hi : in_ret s (S (lastgc s)) = true) by (apply g3; [assumption|lia]).
      rewrite Fn in Hi; [discriminate|lia].
Qed.

(** after all handles are closed, one GC pass hands over every prefix of retired snapshots and
    releases the collector flag *)
Theorem collector_complete : forall n owner progs sched,
  let y := runS true (init n owner progs) sched in
  quiescent shared local pers op result y = true ->
  gcflag (sh y) = false /\
  gcflag (gc_pass (sh y)) = false /\
  forall k, (k <= n)%nat -> (forall s, (1 <= s <= k)%nat -> retired (sh y) s = 1%nat) ->
    (k <= lastgc (gc_pass (sh y)))%nat.
Proof.
  intros n owner progs sched y Hq.
  pose proof (Inv_reach n owner progs sched) as H. fold y in H. clearbody y. unfold sysT, pers in *.
  assert (Hf : gcflag (sh y) = false).
  { pose proof (i_gc _ _ H) as E. rewrite sum_zero in E.
    - destruct (gcflag (sh y)); [lia|reflexivity].
    - intros u Hu. cbn beta. now rewrite (quiescent_cur y Hq u Hu). }
  split; [exact Hf|].
  apply (gc_pass_spec n (sh y)); [|exact Hf].
  constructor; [exact (i_n _ _ H)| |exact (i_keep _ _ H)].
  intros x Hx. apply (i_ret _ _ H x Hx).
Qed.

Print Assumptions refcount_sound.
Print Assumptions collector_safe.
Print Assumptions collector_complete.
