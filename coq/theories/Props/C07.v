(** C07 — Every allocated block is released exactly once by Close.  Statements only. *)
From Coq Require Import List Arith ZArith Lia Bool.
From NV Require Import Base.Sched Conc.Barrier Conc.BarrierProofs.
From NV Require Import Base.Bytes Codec.Frame Mvcc.Store Mvcc.Ops Mvcc.Spec Mvcc.InvDefs Mvcc.Stmts Mvcc.RefineStmt
  Mvcc.Backup Mvcc.BackupProofs.
Import ListNotations.

(** Ledger of the nodes (and their items) allocated by successful Puts — ids 0 .. next_vid-1 — in
    EVERY reachable state of every history (rejected Puts, same-epoch and cross-epoch deletes, stale
    DeleteNode handles, any snapshot close order, GC and worker steps anywhere): each is either still
    linked in the store or was handed to reclamation exactly once; never both, never twice, and nothing
    that was never allocated.  Close() frees every still-linked node once (a walk of the store). *)
Theorem C07_ledger : forall kcmp, cmp_laws kcmp -> forall ops, wf_from 0 ops ->
  let d := fst (Ops.run kcmp db_init ops) in
  NoDup (removed d ++ map vid (Ops.store d)) /\
  (forall i, In i (removed d ++ map vid (Ops.store d)) <-> (i < next_vid d)%N).
Proof. exact ledger. Qed.
Print Assumptions C07_ledger.

(** once every snapshot is closed, a GC pass and the drained workers leave only live versions (and
    versions that died in the current epoch, which the next snapshot's list will carry) *)
Theorem C07_all_closed_clean : forall kcmp, cmp_laws kcmp -> forall ops, wf_from 0 ops ->
  let d := fst (Ops.run kcmp db_init (ops ++ [GC; Drain])) in
  snaps d = [] -> (forall v, In v (Ops.store d) -> vdead v = 0%N \/ vdead v = currSn d).
Proof. exact all_closed_clean. Qed.
Print Assumptions C07_all_closed_clean.

(** what is handed to reclamation is destructed exactly once, in order, and nothing stays pending at
    quiescence (the barrier theorems, for all schedules) *)
Theorem C07_barrier_once : forall progs sched,
  (Z.of_nat (length (concat progs)) < offset)%Z ->
  let y := runS true (Barrier.init progs) sched in
  map fst (destructed (sh y)) = seq 1 (length (destructed (sh y))) /\
  (quiescent Barrier.shared Barrier.local Barrier.pers Barrier.op Barrier.result y = true ->
   (forall t, In t (ths y) -> pers_of t = []) ->
   freeq (sh y) = [] /\ length (destructed (sh y)) = activeSeqno (sh y)).
Proof.
  intros progs sched H y. split.
  - exact (proj1 (proj2 (barrier_safe progs sched H))).
  - intros Q P. exact (barrier_live progs sched H Q P).
Qed.
Print Assumptions C07_barrier_once.
