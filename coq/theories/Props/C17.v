(** C17 — Access barrier liveness: at quiescence nothing is left pending.  Statements only. *)
From Coq Require Import List Arith ZArith Lia Bool.
From NV Require Import Base.Sched Conc.Barrier Conc.BarrierProofs.
Import ListNotations.
Open Scope Z_scope.

(** For all programs and ALL schedules: whenever no call is in progress and every accessor has released
    its token, the free queue is empty and the destructor has run for every FlushSession made so far —
    reclamation never depends on a future flush. *)
Theorem C17_barrier_live : forall progs sched,
  Z.of_nat (length (concat progs)) < offset ->
  let y := runS true (init progs) sched in
  quiescent shared local pers op result y = true ->
  (forall t, In t (ths y) -> pers_of t = []) ->
  freeq (sh y) = [] /\ length (destructed (sh y)) = activeSeqno (sh y).
Proof. exact barrier_live. Qed.
Print Assumptions C17_barrier_live.

(** regression witness: the original code (no re-examination of the queue after the try-lock reset)
    strands two sessions forever in this schedule — two sessions terminating at nearly the same time *)
Example C17_lost_wakeup_refuted :
  let progs := [[OAcquire; ORelease 0]; [OAcquire; OAcquire; ORelease 0; ORelease 0];
                [OAcquire; ORelease 0; OAcquire; ORelease 0]; [OFlush 1; OFlush 2]] in
  let sc := [1; 1; 0; 1; 2; 3; 1; 0; 3; 2; 1; 3; 3; 3; 3; 3; 3; 2; 3; 3; 2; 0; 1; 3; 1; 1; 1; 3; 3; 2; 2; 2; 2]%nat in
  let y := runS false (init progs) sc in
  quiescent shared local pers op result y = true /\
  (forall t, In t (ths y) -> pers_of t = []) /\
  freeq (sh y) = [0%nat; 1%nat] /\ destructed (sh y) = [] /\ activeSeqno (sh y) = 2%nat.
Proof. exact lost_wakeup_refuted. Qed.
