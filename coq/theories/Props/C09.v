(** C09 — Iterator positioning is exact and independent of refresh.  Statements only. *)
From NV Require Import Base.Bytes Codec.Frame Mvcc.Store Mvcc.Ops Mvcc.InvDefs Mvcc.Stmts Mvcc.IterProofs
  Mvcc.CmpInst Mvcc.ViewSorted Mvcc.Old.
Open Scope N_scope.

(** For every comparator satisfying the total-preorder laws, every store satisfying the store
    invariant (any number of invisible older/newer versions physically present), every snapshot
    number and every probe key: Seek stands on the first visible version with key >= probe. *)
Theorem C09_seek_exact : forall kcmp, cmp_laws kcmp ->
  forall cur s sn p c r bs, store_inv kcmp cur s ->
    it_get s (it_seek kcmp s (mkIter sn p c r) bs) =
    find (fun v => visible sn v && negb (before_key kcmp bs v)) s.
Proof. exact seek_exact. Qed.
Print Assumptions C09_seek_exact.

Theorem C09_seek_first_exact : forall s sn p c r,
  it_get s (it_seek_first s (mkIter sn p c r)) = find (visible sn) s.
Proof. exact seek_first_exact. Qed.
Print Assumptions C09_seek_first_exact.

Theorem C09_next_exact : forall kcmp s it, it_rate it = 0%Z ->
  it_get s (it_next kcmp s it) = find (visible (it_sn it)) (skipn (S (it_pos it)) s).
Proof. exact next_exact. Qed.
Print Assumptions C09_next_exact.

(** Refresh on a visible position does not move the iterator ... *)
Theorem C09_refresh_transparent : forall kcmp, cmp_laws kcmp ->
  forall cur s it v, store_inv kcmp cur s -> it_get s it = Some v -> visible (it_sn it) v = true ->
    it_pos (it_refresh kcmp s it) = it_pos it.
Proof. exact refresh_pos. Qed.
Print Assumptions C09_refresh_transparent.

(** ... hence a full scan with ANY automatic refresh rate yields exactly the visible items in order,
    each once, and Valid turns false exactly after the last one. *)
Theorem C09_scan_any_rate : forall kcmp, cmp_laws kcmp ->
  forall cur s sn rate, store_inv kcmp cur s -> (0 <= rate)%Z -> scan_with_rate kcmp s sn rate = view sn s.
Proof. exact scan_any_rate. Qed.
Print Assumptions C09_scan_any_rate.

Theorem C09_view_strictly_increasing : forall kcmp cur s sn, store_inv kcmp cur s ->
  Sorted.StronglySorted (key_lt kcmp) (view sn s).
Proof. exact view_strict. Qed.
Print Assumptions C09_view_strictly_increasing.

(** the executable comparators satisfy the laws *)
Theorem C09_default_cmp_laws : cmp_laws bytes_cmp.
Proof. exact bytes_cmp_laws. Qed.
Print Assumptions C09_default_cmp_laws.
Theorem C09_kv_cmp_laws : cmp_laws compare_kv.
Proof. exact compare_kv_laws. Qed.
Print Assumptions C09_kv_cmp_laws.

(** regression witness: the pre-repair Refresh violated the property *)
Example C09_refresh_old_refuted :
  let s := [mkVer [1] 1 0 0; mkVer [2] 1 2 1; mkVer [2] 3 0 3; mkVer [3] 1 0 2] in
  let it := it_seek bytes_cmp s (mkIter 3 0 0 0) [2] in
  option_map vid (it_get s it) = Some 3 /\
  option_map vid (it_get s (it_refresh_old bytes_cmp s it)) = Some 1 /\
  option_map vid (it_get s (it_refresh bytes_cmp s it)) = Some 3.
Proof. exact refresh_old_refuted. Qed.

(** ON A MOVING STORE: any script of SeekFirst / Seek x / Next / Refresh / SetRefreshRate of a long-lived
    iterator of an open snapshot, with ANY operations of other goroutines between its operations
    (Puts, Deletes, new snapshots, closing of others, GC passes and collection that physically removes
    versions), observes exactly what the same script observes on the fixed sorted list of the items the
    snapshot held when the iterator was created: Seek lands on the first item >= x of THAT list, Next
    on the next one, Refresh does not move, the refresh rate is invisible. *)
From NV Require Import Mvcc.Live Mvcc.LiveScriptStmts Mvcc.LiveScriptProofs.
Theorem C09_live_script : forall kcmp, cmp_laws kcmp -> stmt_live_script kcmp.
Proof. exact live_script_exact. Qed.
Print Assumptions C09_live_script.
