(** C04 — Safe memory reclamation: no use-after-free and no double free.  Statements only.
    Three layers: (1) the reclamation protocol (Conc/Ebr.v): if every layer meets its obligation no
    accessor ever touches freed memory and nothing is freed twice; (2) the access barrier meets its
    obligation for all schedules (Conc/Barrier.v, C16/C17); (3) nodes handed to reclamation: each once
    (Mvcc ledger, C07).  That the Go loads and stores hit real freed memory only when these models say
    so is what the guard-allocator runs observe. *)
From Coq Require Import List Arith ZArith Lia Bool.
From NV Require Import Base.Sched Conc.Ebr Conc.EbrStmts Conc.EbrProofs Conc.Barrier Conc.BarrierProofs.
Import ListNotations.
Open Scope nat_scope.

(** For every set of threads and EVERY sequence of conforming events — accesses inside a token on nodes
    reached under it, flushes of nodes already unlinked at every level, destructors run by the barrier
    in order, once, and only when no token older than the flush is held — no accessor dereferences a
    freed node, no node an accessor still references is freed, a flushed node is freed only by its own
    destructor. *)
Theorem C04_ebr_safe : forall threads tr,
  let st := Ebr.run threads Ebr.init tr in
  bad_access st = false /\
  (forall t n, In t threads -> In n (refs st t) -> nodes st n <> Freed) /\
  (forall n q, nodes st n = Flushed q -> (Ebr.destructed st < q <= flushes st)%nat) /\
  (Ebr.destructed st <= flushes st)%nat.
Proof. exact ebr_safe. Qed.
Print Assumptions C04_ebr_safe.

(** Freed is absorbing: a node is never freed twice and never comes back *)
Theorem C04_freed_absorbing : forall threads st e n,
  nodes st n = Freed -> nodes (Ebr.step threads st e) n = Freed.
Proof. exact freed_absorbing. Qed.
Print Assumptions C04_freed_absorbing.

(** The barrier's obligation, for ALL programs and schedules of its atomic steps (this is C16): the
    destructor of flush q has run only if no token of a session flushed as q or earlier is held. *)
Theorem C04_barrier_contract : forall progs sched,
  (Z.of_nat (length (concat progs)) < offset)%Z ->
  let y := runS true (Barrier.init progs) sched in
  panicked (sh y) = false /\
  map fst (Barrier.destructed (sh y)) = seq 1 (length (Barrier.destructed (sh y))) /\
  (forall t s, In t (ths y) -> In s (pers_of t) ->
     forall q r, In (q, r) (Barrier.destructed (sh y)) ->
       seqno (get (sh y) s) = 0%nat \/ (q < seqno (get (sh y) s))%nat).
Proof.
  intros progs sched H y. destruct (barrier_safe progs sched H) as (A & B & _ & D & _).
  split; [exact A|split; [exact B|exact D]].
Qed.
Print Assumptions C04_barrier_contract.

(** non-vacuity: a destructor attempted while the accessor still holds its token is not a behaviour;
    after the release it frees the node *)
Example C04_nonvacuous :
  let tr1 := [EAcquire 0; EReach 0 5; EUnlink 5; EFlush [5]; EDestruct] in
  let tr2 := tr1 ++ [EAccess 0 5; ERelease 0; EDestruct] in
  nodes (Ebr.run [0; 1] Ebr.init tr1) 5 = Flushed 1 /\ nodes (Ebr.run [0; 1] Ebr.init tr2) 5 = Freed /\
  bad_access (Ebr.run [0; 1] Ebr.init tr2) = false.
Proof. vm_compute. repeat split. Qed.

(** KNOWN FINDING D17 (recorded, not repaired): the obligation "flushes of nodes already unlinked at
    every level" — and staying so — that C04_ebr_safe places on the skiplist is FALSE for the skiplist
    step machine and for the code: after a Delete has returned true (its caller hands the node to the
    barrier), the Insert that is still linking that node's upper levels links it at level 1, where a
    goroutine entering the barrier afterwards finds it; the Insert unlinks it again before leaving
    (C14_levels_clean), but the barrier waits only for the goroutines that were inside at the hand-over.
    Replayed on Nitro with the guard allocator: corpus/C04/d17-late-link-uaf.json (a fault in findPath). *)
From NV Require Import Skip.Model Skip.Stmts Skip.LateLink.
Theorem C04_retired_stays_unlinked_refuted : ~ stmt_retired_stays_unlinked.
Proof. exact retired_stays_unlinked_refuted. Qed.
Print Assumptions C04_retired_stays_unlinked_refuted.

(** What IS true of the step machine, for all programs and schedules: once BOTH the successful Delete
    whose level-0 mark removed node n AND the successful Insert that created n have returned, n is on no
    level chain in any later state.  The code hands the node to the barrier when the Delete returns;
    the difference between this theorem and the refuted obligation above is exactly the late
    upper-level link of an Insert that is still in flight (D17) — and it says what a repair has to
    wait for. *)
From NV Require Import Skip.IterStmts Skip.LinStmts Skip.RetireStmts Skip.RetireProofs.
Theorem C04_retired_unlinked_when_both_returned : stmt_retired_unlinked_when_both_returned.
Proof. exact retired_unlinked_when_both_returned. Qed.
Print Assumptions C04_retired_unlinked_when_both_returned.
