(** C18 — Bulk builder and merge iterator are lossless and order-preserving.  Statements only. *)
From Coq Require Import List Arith ZArith Lia Bool Sorting.Sorted Sorting.Permutation.
From NV Require Import Base.Sched Skip.Model Skip.Merger Skip.Builder Skip.Stmts Skip.C18Stmts Skip.C18Proofs Skip.HeightStmts Skip.HeightProofs.
Import ListNotations.
Open Scope Z_scope.

(** Assembling any number of segments (empty ones anywhere), filled with items of arbitrary levels
    <= maxLevel: every level chain of the result is the concatenation of the segments restricted to
    the nodes of at least that height, unmarked; level 0 is the plain concatenation. *)
Theorem C18_assemble_concat : forall segs, items_ok segs ->
  let sh := assemble segs in
  forall l, (l <= maxLevel)%nat ->
    exists c, chain_ids sh l = Some c /\
      map (fun n => key (node sh n)) c = map fst (filter (fun e => (l <=? snd e)%nat) (concat segs)) /\
      (forall n, In n c -> marked sh n l = false /\ (l <= lvl (node sh n))%nat).
Proof. exact assemble_concat. Qed.
Print Assumptions C18_assemble_concat.

Theorem C18_assemble_stats : forall segs, items_ok segs ->
  let sh := assemble segs in
  sl_level sh = fold_right Nat.max 0%nat (map snd (concat segs)) /\
  st_soft (sts sh) = 0 /\ st_allocs (sts sh) = Z.of_nat (length (concat segs)) /\
  forall l, (l <= maxLevel)%nat ->
    nth l (st_nodes (sts sh)) 0 = Z.of_nat (length (filter (fun e => Nat.eqb (snd e) l) (concat segs))).
Proof. exact assemble_stats. Qed.
Print Assumptions C18_assemble_stats.

(** SeekFirst called in ANY state of the merge iterator (before, during or after a scan) over any
    number of ascending lists — overlapping, disjoint, duplicate, empty — makes the scan yield exactly
    the sorted multiset union; no step dereferences nil. *)
Theorem C18_merge_seek_first : forall ls rm h c, Forall (StronglySorted Z.lt) ls ->
  exists m1, m_seek_first true (mkM ls rm h c) = Some m1 /\
             m_drain (S (total_len ls)) m1 [] = Some (merged ls).
Proof. exact merge_seek_first. Qed.
Print Assumptions C18_merge_seek_first.

(** Seek x in any state: exactly the elements >= x of the union, and the flag says whether x occurs *)
Theorem C18_merge_seek : forall ls rm h c x, Forall (StronglySorted Z.lt) ls ->
  exists m1, m_seek true (mkM ls rm h c) x = Some (m1, existsb (fun l => existsb (Z.eqb x) l) ls) /\
             m_drain (S (total_len ls)) m1 [] = Some (filter (fun y => x <=? y) (merged ls)).
Proof. exact merge_seek. Qed.
Print Assumptions C18_merge_seek.

Theorem C18_merged_sorted : forall ls, Forall (StronglySorted Z.lt) ls ->
  StronglySorted Z.le (merged ls) /\ Permutation (merged ls) (concat ls).
Proof. exact merged_sorted. Qed.
Print Assumptions C18_merged_sorted.

(** regression witness: without resetting the heap a re-seek leaves stale entries (nil dereference) *)
Example C18_merge_no_reset_refuted :
  m_run false (m_init [[1; 2; 3]]) [MSeekFirst; MNext; MSeekFirst; MNext; MNext; MNext] <>
  m_run true  (m_init [[1; 2; 3]]) [MSeekFirst; MNext; MSeekFirst; MNext; MNext; MNext].
Proof. exact merge_no_reset_refuted. Qed.

(** The shared height s.level under ALL programs and ALL schedules (NewLevel: load, then CAS to
    level+1; the builder's Segment.Add draws its levels through the same NewLevel): it covers every
    tower and stays within the maximum in every reachable state, never goes down, and is exactly the
    tallest tower ever allocated.  Searches and unlink passes start at s.level, so a tower above it
    would be invisible to them. *)
Theorem C18_height_covers : forall progs sched, let y := runS (init progs) sched in
  (sl_level (sh y) <= maxLevel)%nat /\
  forall n, (2 <= n < length (heap (sh y)))%nat -> (lvl (node (sh y) n) <= sl_level (sh y))%nat.
Proof. exact height_covers. Qed.
Print Assumptions C18_height_covers.

Theorem C18_height_monotone : forall progs sched i, let y := runS (init progs) sched in
  (sl_level (sh y) <= sl_level (sh (stepS y i)) <= S (sl_level (sh y)))%nat.
Proof. exact height_monotone. Qed.
Print Assumptions C18_height_monotone.

Theorem C18_height_exact : forall progs sched, let y := runS (init progs) sched in
  sl_level (sh y) = fold_right Nat.max 0%nat (map lvl (skipn 2 (heap (sh y)))).
Proof. exact height_exact. Qed.
Print Assumptions C18_height_exact.
