(** C15 — Skiplist iterators stay ordered and complete under concurrent modification.  Statements only. *)
From Coq Require Import List Arith ZArith Lia Bool Sorting.Sorted.
From NV Require Import Base.Sched Skip.Model Skip.Stmts Skip.Proofs Skip.IterStmts Skip.IterProofs.
Import ListNotations.
Open Scope Z_scope.

(** For all programs and schedules: whenever a Next completes with a valid position, the key it stands
    on is >= the key it stood on before — whatever inserts, deletes (of the node it stands on, of its
    predecessor), help-deletes and re-searches happened in between. *)
Theorem C15_iter_monotone : stmt_iter_monotone.
Proof. exact iter_monotone. Qed.
Print Assumptions C15_iter_monotone.

(** every pointer an iterator can follow at level 0 leads to a strictly larger key, always — including
    the frozen pointers of nodes that have been unlinked while the iterator stands on them *)
Theorem C15_edges_increasing : stmt_edges_increasing_weak.
Proof. exact edges_increasing_weak. Qed.
Print Assumptions C15_edges_increasing.

(** the level-0 chain is strictly sorted in every reachable state: what a scan can see is ordered *)
Theorem C15_l0_sorted : forall progs sched, let y := runS (init progs) sched in
  exists c, chain_ids (sh y) 0 = Some c /\
            StronglySorted Z.lt (map (fun n => key (node (sh y) n)) c).
Proof. exact l0_sorted. Qed.
Print Assumptions C15_l0_sorted.

(** COMPLETENESS — a scan cannot jump over an item that is there all the time.  For all programs, all
    schedules, any refresh interval: thread i is between operations at steps a and b and has executed only
    Next operations in between; node n is present (linked at level 0, unmarked) in EVERY state from a
    to b; the iterator stood on a smaller key at a and stands behind n (or is exhausted) at b.  Then at
    some step in between it stood on n with the operation completed: n's item was returned. *)
Theorem C15_no_skip : forall progs sched a b i n ops ita itb,
  (a <= b)%nat -> (b <= length sched)%nat ->
  let ya := at_ progs sched a in let yb := at_ progs sched b in
  idle ya i -> idle yb i -> consumed ya yb i ops -> Forall (fun o => o = ONext) ops ->
  (forall j, (a <= j <= b)%nat -> present (sh (at_ progs sched j)) n) ->
  it_pos ya i = Some ita -> it_valid ita = true -> it_curr ita <> tl_id ->
  key (node (sh ya) (it_curr ita)) < key (node (sh ya) n) ->
  it_pos yb i = Some itb ->
  (it_curr itb = tl_id \/ key (node (sh yb) n) < key (node (sh yb) (it_curr itb))) ->
  exists j itj, (a <= j <= b)%nat /\ idle (at_ progs sched j) i /\
                it_pos (at_ progs sched j) i = Some itj /\ it_curr itj = n.
Proof. exact iter_no_skip. Qed.
Print Assumptions C15_no_skip.

(** ... including the start of the scan: SeekFirst, or Seek x with x <= n's key, followed by Nexts *)
Theorem C15_scan_complete : stmt_scan_complete.
Proof. exact scan_complete. Qed.
Print Assumptions C15_scan_complete.

(** SOUNDNESS — whenever SeekFirst / Seek / Next completes standing on a node (not the tail), that
    node was linked at level 0 at some moment of that very operation: only items that were in the list
    during the operation are returned (a linked node may carry the mark of a delete that has not yet
    returned: that delete is concurrent with the scan). *)
Theorem C15_sound : stmt_iter_sound.
Proof. exact iter_sound. Qed.
Print Assumptions C15_sound.

(** non-vacuity: a scan over {10,20,30} during which another goroutine deletes 20 — the second Next
    finds the node marked, its help CAS fails, it re-searches — satisfies every hypothesis of C15_no_skip
    for the node of key 30 *)
Example C15_no_skip_nonvacuous := iter_no_skip_nonvacuous.
