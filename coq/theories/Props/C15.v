(** C15 — Skiplist iterators stay ordered and complete under concurrent modification.  Statements only. *)
From Coq Require Import List Arith ZArith Lia Bool Sorting.Sorted.
From NV Require Import Base.Sched Skip.Model Skip.Stmts Skip.Proofs.
Import ListNotations.
Open Scope Z_scope.

(** For all programs and schedules: whenever a Next completes with a valid position, the key it stands
    on is >= the key it stood on before — whatever inserts, deletes (of the node it stands on, of its
    predecessor), help-deletes and re-searches happened in between. *)
Theorem C15_iter_monotone : stmt_iter_monotone.
Proof. exact iter_monotone. Qed.
Print Assumptions C15_iter_monotone.

(** every pointer an iterator can follow at level 0 leads to a strictly larger key, always — including
    the frozen pointers of nodes that have been unlinked while the iterator stands on them *)
Theorem C15_edges_increasing : stmt_edges_increasing_weak.
Proof. exact edges_increasing_weak. Qed.
Print Assumptions C15_edges_increasing.

(** the level-0 chain is strictly sorted in every reachable state: what a scan can see is ordered *)
Theorem C15_l0_sorted : forall progs sched, let y := runS (init progs) sched in
  exists c, chain_ids (sh y) 0 = Some c /\
            StronglySorted Z.lt (map (fun n => key (node (sh y) n)) c).
Proof. exact l0_sorted. Qed.
Print Assumptions C15_l0_sorted.
