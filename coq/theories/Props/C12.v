(** C12 — Backup never reports success for, or leaves behind, a silently partial backup.
    Statements only. *)
From NV Require Import Base.Bytes Codec.Frame Codec.FrameProofs Codec.FileImage Codec.FileImageStmts Codec.FileImageProofs Codec.BufWriter Codec.BufWriterStmts Codec.BufWriterProofs.
Open Scope N_scope.

(** For every stored content and every point at which the process may stop — shard files holding any
    prefixes of their final content before the data manifest exists, the manifest half-written, written
    without / with half / with the complete checksum file — what is left on disk either fails to load or
    loads exactly the stored snapshot. *)
Theorem C12_crash_safe : forall crc shards st, good_shards shards ->
  load_data crc (crash_image crc shards st) = LErr \/
  load_data crc (crash_image crc shards st) = LOk (concat shards).
Proof. exact crash_safe. Qed.
Print Assumptions C12_crash_safe.

(** the lemma it rests on: an incomplete shard file never loads *)
Theorem C12_truncation_detected : forall crc items n, Forall (fun bs => 0 < lenN bs < 4294967296) items ->
  (n < length (file_of crc items))%nat ->
  snd (read_shard crc 1 (firstn n (file_of crc items))) = false.
Proof. exact truncation_detected. Qed.
Print Assumptions C12_truncation_detected.

(** Every failing write is reported.  The backup file writer (rawFileWriter over bufio.Writer, any
    buffer size B > 0) on a file whose writes start failing at ANY byte budget (a write that does not
    fit writes what fits and fails), for every item sequence: the file holds exactly the first
    [budget] bytes of the complete file; Close returns nil exactly when the complete file, end marker
    included, fits the budget; and when Close returns nil every WriteItem returned nil and the file is
    complete.  In particular a failure that is reached only in the final Flush inside Close (the whole
    tail of the shard was still in the buffer) is reported. *)
Theorem C12_store_file_spec : forall (crc : list N -> N) (B budget : nat) (items : list (list N)),
  (0 < B)%nat ->
  let '(oks, c, file) := store_file B budget items in
  file = firstn budget (file_of crc items) /\
  c = (length (file_of crc items) <=? budget)%nat /\
  (c = true -> List.Forall (fun ok => ok = true) oks /\ file = file_of crc items).
Proof. exact store_file_spec. Qed.
Print Assumptions C12_store_file_spec.

(** errors are sticky: once a WriteItem has failed every later one fails (and so does Close) *)
Theorem C12_errors_sticky : forall (B budget : nat) (items : list (list N)) (i j : nat),
  (0 < B)%nat -> (i <= j)%nat ->
  let '(oks, _, _) := store_file B budget items in
  nth i oks true = false -> (j < length oks)%nat -> nth j oks true = false.
Proof. exact errors_sticky. Qed.
Print Assumptions C12_errors_sticky.

(** regression witness (seed S56): a Close that does not look at the result of the final Flush reports
    success for a truncated file *)
Theorem C12_noflushcheck_refuted : exists B budget items,
  let '(w, _) := write_items_b B budget bw0 items in
  let '(w', c) := close_b_noflushcheck B budget w in
  c = true /\ f_out w' <> file_of (fun _ => 0) items.
Proof. exact noflushcheck_refuted. Qed.
Print Assumptions C12_noflushcheck_refuted.
