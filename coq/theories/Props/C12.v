(** C12 — Backup never reports success for, or leaves behind, a silently partial backup.
    Statements only. *)
From NV Require Import Base.Bytes Codec.Frame Codec.FrameProofs Codec.FileImage Codec.FileImageStmts Codec.FileImageProofs.
Open Scope N_scope.

(** For every stored content and every point at which the process may stop — shard files holding any
    prefixes of their final content before the data manifest exists, the manifest half-written, written
    without / with half / with the complete checksum file — what is left on disk either fails to load or
    loads exactly the stored snapshot. *)
Theorem C12_crash_safe : forall crc shards st, good_shards shards ->
  load_data crc (crash_image crc shards st) = LErr \/
  load_data crc (crash_image crc shards st) = LOk (concat shards).
Proof. exact crash_safe. Qed.
Print Assumptions C12_crash_safe.

(** the lemma it rests on: an incomplete shard file never loads *)
Theorem C12_truncation_detected : forall crc items n, Forall (fun bs => 0 < lenN bs < 4294967296) items ->
  (n < length (file_of crc items))%nat ->
  snd (read_shard crc 1 (firstn n (file_of crc items))) = false.
Proof. exact truncation_detected. Qed.
Print Assumptions C12_truncation_detected.
