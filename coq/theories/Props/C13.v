(** C13 — The lock-free skiplist is a linearizable ordered set.  Statements only.
    Machine: Skip/Model.v — one step per atomic access of findPath / helpDelete / Insert4 (publish,
    own-pointer fix-up, upper-level link, re-check) / softDelete / NewLevel / the iterator, replayed
    step by step against the real code. *)
From Coq Require Import List Arith ZArith Lia Bool Sorting.Sorted.
From NV Require Import Base.Sched Skip.Model Skip.Stmts Skip.Proofs Skip.IterStmts Skip.LinStmts Skip.LinProofs Skip.QuiescentScanStmts Skip.QuiescentScanProofs Skip.HeightStmts Skip.HeightProofs.
Import ListNotations.
Open Scope Z_scope.

(** For ALL numbers of goroutines, programs over Insert (any level request) / Delete / DeleteNode /
    Lookup / iterator ops, and ALL schedules of their atomic steps: the level-0 chain from the head
    reaches the tail and its keys — marked nodes included — are strictly increasing: acyclic, no
    duplicates, never relinked out of order. *)
Theorem C13_l0_sorted : forall progs sched, let y := runS (init progs) sched in
  exists c, chain_ids (sh y) 0 = Some c /\
            StronglySorted Z.lt (map (fun n => key (node (sh y) n)) c).
Proof. exact l0_sorted. Qed.
Print Assumptions C13_l0_sorted.

(** At quiescence, for every key: (successful Inserts) - (successful Deletes/DeleteNodes) = 1 if the key
    is in the set (an unmarked node of the level-0 chain) and 0 otherwise.  Hence Insert succeeds only
    when the key was absent and Delete only when it was present, per state change exactly one of the
    racing operations succeeds, and a given node is deleted successfully by exactly one caller. *)
Theorem C13_accounting : forall progs sched, let y := runS (init progs) sched in
  quiescentS y = true ->
  forall k,
    sum_ok (is_ins k) progs (map (fun t => done t) (ths y))
    - sum_ok (is_del k) progs (map (fun t => done t) (ths y))
    = if existsb (Z.eqb k) (abs_keys (sh y)) then 1 else 0.
Proof. exact accounting. Qed.
Print Assumptions C13_accounting.

(** After quiescence no marked node is linked at level 0: an iterator yields exactly the set. *)
Theorem C13_quiescent_clean : forall progs sched, let y := runS (init progs) sched in
  quiescentS y = true ->
  exists c, chain_ids (sh y) 0 = Some c /\
    (forall n, In n c -> marked (sh y) n 0 = false) /\
    st_soft (sts (sh y)) = 0 /\
    (forall l, nth l (st_nodes (sts (sh y))) 0 =
               Z.of_nat (length (filter (fun n => Nat.eqb (lvl (node (sh y) n)) l) c))).
Proof. exact quiescent_clean. Qed.
Print Assumptions C13_quiescent_clean.

(** every pointer at level 0 leads to a strictly larger key, at upper levels to a key that is not
    smaller (the word of a node that is not yet linked at that level may point at a marked node of equal
    key; the chains of linked nodes themselves are strictly sorted on every level: C14_levels_sorted) *)
Theorem C13_edges_increasing : stmt_edges_increasing_weak.
Proof. exact edges_increasing_weak. Qed.
Print Assumptions C13_edges_increasing.

(** non-vacuity *)
Example C13_nonvacuous :
  let progs := [[OInsert 10 1; OInsert 20 0; OInsert 10 0]; [ODelete 10; OInsert 10 2; ODeleteNode 10; OLookup 20]] in
  let y := runS (init progs) (repeat 0%nat 60 ++ repeat 1%nat 200 ++ repeat 0%nat 100) in
  quiescentS y = true /\ abs_keys (sh y) = [20] /\
  map (fun t => done t) (ths y) = [[RBool true; RBool true; RBool false]; [RBool true; RBool true; RBool true; RBool true]].
Proof. vm_compute. repeat split. Qed.

(** LINEARIZABILITY with explicit linearization points.  Abstract state: membership in [abs_keys] (the
    unmarked nodes of the level-0 chain).  For all programs and all schedules:
    (1) the abstract set changes only at linearization points — a step that changes any membership
        changes exactly one key's, and the acting goroutine is at the level-0 publish CAS of an Insert of
        that key (absent -> present) or at the level-0 mark CAS of a Delete of that key (present ->
        absent); *)
Theorem C13_lin_points : stmt_lin_points.
Proof. exact lin_points. Qed.
Print Assumptions C13_lin_points.

(** (2) every Insert that returns true contains exactly one step of its own that changes the membership
        of its key, from absent to present; every Delete / DeleteNode that returns true exactly one, from
        present to absent (a node is deleted successfully by exactly one caller); *)
Theorem C13_lin_insert_true : stmt_lin_insert_true.
Proof. exact lin_insert_true. Qed.
Print Assumptions C13_lin_insert_true.
Theorem C13_lin_delete_true : stmt_lin_delete_true.
Proof. exact lin_delete_true. Qed.
Print Assumptions C13_lin_delete_true.

(** (3) operations that leave the set unchanged make no change of their own and observed the set at a
        moment of their own interval: a failed Insert saw its key present, a failed Delete saw it absent,
        a Lookup's answer was true at some moment between its call and its return. *)
Theorem C13_lin_insert_false : stmt_lin_insert_false.
Proof. exact lin_insert_false. Qed.
Print Assumptions C13_lin_insert_false.
Theorem C13_lin_delete_false : stmt_lin_delete_false.
Proof. exact lin_delete_false. Qed.
Print Assumptions C13_lin_delete_false.
Theorem C13_lin_lookup : stmt_lin_lookup.
Proof. exact lin_lookup. Qed.
Print Assumptions C13_lin_lookup.

(** non-vacuity: a failed Insert, a successful Delete and a Lookup returning true overlapping on one key *)
Example C13_lin_nonvacuous := lin_nonvacuous.

(** "After quiescence an iterator yields exactly the resulting set in order": the programs run under any
    schedule until all of them have finished; a further goroutine then runs SeekFirst and m Nexts: its
    results are the first m+1 keys of the set in ascending order, then "exhausted". *)
Theorem C13_quiescent_scan : stmt_quiescent_scan.
Proof. exact quiescent_scan. Qed.
Print Assumptions C13_quiescent_scan.

(** Marks are set top-down and never removed: in every reachable state (ALL programs, ALL schedules)
    the marked levels of a node form an upper segment of its tower.  A node dead at level 0 is dead on
    every index level, so a search that steps over a node that is unmarked on an index level may
    descend inside it without entering the bottom list through a frozen pointer (the assumption
    findPath makes when it checks marks only on the level it walks). *)
Theorem C13_marks_upper_segment : forall progs sched, let y := runS (init progs) sched in
  forall n i j, marked (sh y) n i = true -> (i <= j < length (nxt (node (sh y) n)))%nat ->
    marked (sh y) n j = true.
Proof. exact marks_upper_segment. Qed.
Print Assumptions C13_marks_upper_segment.
