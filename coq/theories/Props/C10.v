(** C10 — Visitor delivers every visible item exactly once, partitioned in order.  Statements only. *)
From NV Require Import Base.Bytes Codec.Frame Mvcc.Store Mvcc.Ops Mvcc.InvDefs Mvcc.Stmts Mvcc.IterProofs
  Mvcc.CmpInst Mvcc.ViewSorted Mvcc.Old.
Open Scope N_scope.

(** For every comparator (laws), store (invariant), snapshot number, refresh rate and for ANY list of
    pivots — whatever the range-split heuristic returned, hence every shard count and database size —
    the shard outputs concatenated in shard order are exactly the snapshot's view. *)
Theorem C10_visitor_partition : forall kcmp, cmp_laws kcmp ->
  forall cur s sn rate pivots, store_inv kcmp cur s -> (0 <= rate)%Z ->
    concat (visitor kcmp true s sn rate pivots) = view sn s.
Proof. exact visitor_partition. Qed.
Print Assumptions C10_visitor_partition.

(** The view is strictly increasing by key; since the shard outputs are consecutive segments of it,
    every shard is ascending, every item of shard i precedes every item of shard i+1, and no item
    occurs twice. *)
Theorem C10_view_strictly_increasing : forall kcmp cur s sn, store_inv kcmp cur s ->
  Sorted.StronglySorted (key_lt kcmp) (view sn s).
Proof. exact view_strict. Qed.
Print Assumptions C10_view_strictly_increasing.

(** regression witness: with the pre-repair comparator (key, bornSn) an item was delivered twice *)
Example C10_visitor_old_refuted :
  let s := [mkVer [1] 1 0 0; mkVer [2] 1 2 1; mkVer [2] 2 0 2; mkVer [3] 1 0 3] in
  let pivots := [([2], 1); ([2], 2)] in
  concat (visitor bytes_cmp false s 1 0 pivots) = [[1]; [2]; [2]; [3]] /\
  view 1 s = [[1]; [2]; [3]] /\
  concat (visitor bytes_cmp true s 1 0 pivots) = [[1]; [2]; [3]].
Proof. exact visitor_old_refuted. Qed.
