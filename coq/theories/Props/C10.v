(** C10 — Visitor delivers every visible item exactly once, partitioned in order.  Statements only. *)
From NV Require Import Base.Bytes Codec.Frame Mvcc.Store Mvcc.Ops Mvcc.InvDefs Mvcc.Stmts Mvcc.IterProofs
  Mvcc.CmpInst Mvcc.ViewSorted Mvcc.Old.
Open Scope N_scope.

(** For every comparator (laws), store (invariant), snapshot number, refresh rate and for ANY list of
    pivots — whatever the range-split heuristic returned, hence every shard count and database size —
    the shard outputs concatenated in shard order are exactly the snapshot's view. *)
Theorem C10_visitor_partition : forall kcmp, cmp_laws kcmp ->
  forall cur s sn rate pivots, store_inv kcmp cur s -> (0 <= rate)%Z ->
    concat (visitor kcmp true s sn rate pivots) = view sn s.
Proof. exact visitor_partition. Qed.
Print Assumptions C10_visitor_partition.

(** The view is strictly increasing by key; since the shard outputs are consecutive segments of it,
    every shard is ascending, every item of shard i precedes every item of shard i+1, and no item
    occurs twice. *)
Theorem C10_view_strictly_increasing : forall kcmp cur s sn, store_inv kcmp cur s ->
  Sorted.StronglySorted (key_lt kcmp) (view sn s).
Proof. exact view_strict. Qed.
Print Assumptions C10_view_strictly_increasing.

(** regression witness: with the pre-repair comparator (key, bornSn) an item was delivered twice *)
Example C10_visitor_old_refuted :
  let s := [mkVer [1] 1 0 0; mkVer [2] 1 2 1; mkVer [2] 2 0 2; mkVer [3] 1 0 3] in
  let pivots := [([2], 1); ([2], 2)] in
  concat (visitor bytes_cmp false s 1 0 pivots) = [[1]; [2]; [2]; [3]] /\
  view 1 s = [[1]; [2]; [3]] /\
  concat (visitor bytes_cmp true s 1 0 pivots) = [[1]; [2]; [3]].
Proof. exact visitor_old_refuted. Qed.

(** "It always terminates; if a callback returns an error Visitor returns an error": the worker pool of
    Visitor (Conc/VisitPool.v: the caller pushes the shard numbers into a buffered channel as large as
    the number of shards, closes it and waits; a worker whose callback fails records the error and
    returns).  For every number of shards, every set of failing shards — including all of them —, every
    number c >= 1 of workers and every schedule: no deadlock ... *)
From Coq Require Import List Arith Lia Bool Sorting.Permutation.
From NV Require Import Base.Sched Conc.VisitPool Conc.VisitPoolStmts Conc.VisitPoolProofs.
Theorem C10_visit_no_deadlock : stmt_visit_no_deadlock.
Proof. exact visit_no_deadlock. Qed.
Print Assumptions C10_visit_no_deadlock.

(** ... every enabled step decreases a measure that starts at 3n + 4c + 5 ... *)
Theorem C10_visit_terminates : stmt_visit_measure.
Proof. exact visit_measure. Qed.
Print Assumptions C10_visit_terminates.

(** ... and at the end no shard was visited twice, the recorded failures are exactly the failing visited
    shards, without failures every shard was visited exactly once, and if some shard fails an error is
    recorded *)
Theorem C10_visit_complete : stmt_visit_complete.
Proof. exact visit_complete. Qed.
Print Assumptions C10_visit_complete.

(** regression witness (seeded change S30): a channel of capacity c instead of the number of shards,
    two failing workers, six shards: the caller is blocked for ever *)
Theorem C10_small_channel_stuck : stmt_visit_small_channel_stuck.
Proof. exact visit_small_channel_stuck. Qed.
Print Assumptions C10_small_channel_stuck.

(** ON A MOVING STORE: a visit of an OPEN snapshot (any pivots, any refresh rate) with arbitrary
    operations of other goroutines before it and between any two deliveries — Puts, Deletes, new
    snapshots, closing of other snapshots, GC passes and collection that physically removes versions the
    snapshot cannot see: if the visit ran to its end and the snapshot is still open, the concatenation
    of the shards IS the snapshot's item list (each item once, ascending, shard after shard), and no
    version it can see was ever collected. *)
From NV Require Import Base.Bytes Mvcc.Store Mvcc.Ops Mvcc.InvDefs Mvcc.RefineStmt Mvcc.Live Mvcc.Delta Mvcc.VisitLiveStmts Mvcc.VisitLiveProofs.
Theorem C10_visitor_live : forall kcmp, cmp_laws kcmp -> stmt_visitor_live kcmp.
Proof. exact visitor_live_exact. Qed.
Print Assumptions C10_visitor_live.
