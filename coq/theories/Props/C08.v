(** C08 — Snapshot handles: the reference count never leaves zero.  Statements only.
    Machine: Conc/Snap.v (Open = load / zero test / CAS-retry, Close = decrement / move to the retired
    set / try-lock GC, in-order collector), every atomic segment of the Go code one step. *)
From Coq Require Import List Arith ZArith Lia Bool.
From NV Require Import Base.Sched Conc.Snap Conc.SnapProofs.
Import ListNotations.
Open Scope Z_scope.

(** For every number of snapshots, every assignment of the creation references to goroutines, all
    programs over Open/Close/GC (a goroutine closes only handles it holds) and ALL schedules:
    no Open succeeds once the count has reached zero; the count never leaves zero; a snapshot is
    retired at most once, and exactly once when every handle has been closed at quiescence. *)
Theorem C08_refcount_sound : forall n owner progs sched,
  let y := runS true (init n owner progs) sched in
  late_open (sh y) = false /\
  (forall s, zeroed (sh y) s = true -> ref (sh y) s = 0) /\
  (forall s, (1 <= s <= n)%nat -> ref (sh y) s = 0 -> zeroed (sh y) s = true) /\
  (forall s, (retired (sh y) s <= 1)%nat) /\
  (forall s, in_open (sh y) s = true -> zeroed (sh y) s = false \/ exists t, In t (ths y) /\ cur t = Some (LCloseDec s)) /\
  (quiescent shared local pers op result y = true ->
     forall s, (1 <= s <= n)%nat -> ref (sh y) s = 0 -> retired (sh y) s = 1%nat).
Proof. exact refcount_sound. Qed.
Print Assumptions C08_refcount_sound.

(** The collector hands garbage lists over strictly in snapshot order, each once, only for snapshots
    that were retired — under every interleaving of Open/Close/GC. *)
Theorem C08_collector_safe : forall n owner progs sched,
  let y := runS true (init n owner progs) sched in
  sent (sh y) = seq 1 (lastgc (sh y)) /\
  (forall s, In s (sent (sh y)) -> retired (sh y) s = 1%nat /\ in_ret (sh y) s = false) /\
  (forall s, in_ret (sh y) s = true -> (lastgc (sh y) < s <= n)%nat /\ retired (sh y) s = 1%nat) /\
  (lastgc (sh y) <= n)%nat.
Proof. exact collector_safe. Qed.
Print Assumptions C08_collector_safe.

(** ... and can always make progress: from any reachable quiescent state a single GC pass collects
    the whole consecutive run of retired snapshots (nothing is stranded by any order of Closes). *)
Theorem C08_collector_complete : forall n owner progs sched,
  let y := runS true (init n owner progs) sched in
  quiescent shared local pers op result y = true ->
  gcflag (sh y) = false /\
  gcflag (gc_pass (sh y)) = false /\
  forall k, (k <= n)%nat -> (forall s, (1 <= s <= k)%nat -> retired (sh y) s = 1%nat) ->
    (k <= lastgc (gc_pass (sh y)))%nat.
Proof. exact collector_complete. Qed.
Print Assumptions C08_collector_complete.

(** regression witness: with the original Open (zero test and increment as two atomics) a released
    snapshot is resurrected and retired twice *)
Example C08_resurrection_refuted :
  let y := runS false (init 1 (fun _ => 0%nat) [[OClose 1]; [OOpen 1; OClose 1]]) [1;0;1;0;0;0;1;1;1;1]%nat in
  late_open (sh y) = true /\ retired (sh y) 1%nat = 2%nat.
Proof. exact resurrection_refuted. Qed.

(** non-vacuity: the same programs under the repaired Open *)
Example C08_nonvacuous :
  let y := runS true (init 1 (fun _ => 0%nat) [[OClose 1]; [OOpen 1; OClose 1]]) [1;0;1;0;0;0;1;1;1;1]%nat in
  late_open (sh y) = false /\ retired (sh y) 1%nat = 1%nat /\ lastgc (sh y) = 1%nat.
Proof. vm_compute. repeat split. Qed.
