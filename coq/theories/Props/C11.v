(** C11 — Restore detects damaged backups: error or exact, never silent, never stuck.  Statements only.
    Model: Codec/FileImage.v (LoadFromDisk over manifests-as-parsed and shard files as bytes). *)
From NV Require Import Base.Bytes Codec.Frame Codec.FrameProofs Codec.FileImage Codec.FileImageStmts Codec.FileImageProofs.
Open Scope N_scope.

(** for every checksum function, every stored content: *)
Theorem C11_load_intact : forall crc shards, good_shards shards ->
  load_data crc (stored_image crc shards) = LOk (concat shards).
Proof. exact load_intact. Qed.
Print Assumptions C11_load_intact.

(** every proper prefix of a shard file fails to load ... *)
Theorem C11_truncation_detected : forall crc items n, Forall (fun bs => 0 < lenN bs < 4294967296) items ->
  (n < length (file_of crc items))%nat ->
  snd (read_shard crc 1 (firstn n (file_of crc items))) = false.
Proof. exact truncation_detected. Qed.
Print Assumptions C11_truncation_detected.

(** ... hence any shard file truncated at any offset, or removed, makes the whole load fail *)
Theorem C11_truncated_shard : forall crc shards k items n, good_shards shards -> nth_error shards k = Some items ->
  (n < length (file_of crc items))%nat ->
  load_data crc (mkImg (POk 1) (replace_file (stored_dir crc shards) (N.of_nat k)
                                 (Some (firstn n (file_of crc items)))) (empty_dir)) = LErr.
Proof. exact truncated_shard. Qed.
Print Assumptions C11_truncated_shard.

Theorem C11_missing_shard : forall crc shards k, good_shards shards -> (k < length shards)%nat ->
  load_data crc (mkImg (POk 1) (replace_file (stored_dir crc shards) (N.of_nat k) None) empty_dir) = LErr.
Proof. exact missing_shard. Qed.
Print Assumptions C11_missing_shard.

(** damaged manifests are errors (never an empty database, never a panic); a missing checksums.json
    (backups older than checksums) gives the exact content *)
Theorem C11_manifest_damage : forall crc shards, good_shards shards ->
  let d := stored_dir crc shards in
  load_data crc (mkImg (POk 1) (mkDir PBad (d_cks d) (d_file d)) empty_dir) = LErr /\
  load_data crc (mkImg (POk 1) (mkDir PMissing (d_cks d) (d_file d)) empty_dir) = LErr /\
  load_data crc (mkImg (POk 1) (mkDir (d_files d) PBad (d_file d)) empty_dir) = LErr /\
  load_data crc (mkImg PBad d empty_dir) = LErr /\
  (forall cks, length cks <> length shards ->
     load_data crc (mkImg (POk 1) (mkDir (d_files d) (POk cks) (d_file d)) empty_dir) = LErr) /\
  load_data crc (mkImg (POk 1) (mkDir (d_files d) PMissing (d_file d)) empty_dir) = LOk (concat shards).
Proof. exact manifest_damage. Qed.
Print Assumptions C11_manifest_damage.

(** a manifest entry redirected to another shard is detected whenever the checksums differ — in
    particular an empty shard's slot (recorded checksum 0) pointing at a non-empty shard *)
Theorem C11_redirect_detected : forall crc shards k j itemsk itemsj, good_shards shards ->
  nth_error shards k = Some itemsk -> nth_error shards j = Some itemsj ->
  w_ck (write_items crc itemsk) <> w_ck (write_items crc itemsj) ->
  let d := stored_dir crc shards in
  let names' := map (fun x => if x =? N.of_nat k then N.of_nat j else x) (names_of (length shards)) in
  load_data crc (mkImg (POk 1) (mkDir (POk names') (d_cks d) (d_file d)) empty_dir) = LErr.
Proof. exact redirect_detected. Qed.
Print Assumptions C11_redirect_detected.

(** CRC-32 (the IEEE polynomial of hash/crc32, Codec/Crc32.v) separates any two byte strings that differ
    in exactly one byte, for every length and every position ... *)
From NV Require Import Codec.Crc32 Codec.CrcStmts Codec.CrcProofs.
Theorem C11_crc32_single_byte : forall a b b' c, is_bytes (a ++ b :: c) -> b' < 256 -> b <> b' ->
  crc32 (a ++ b :: c) <> crc32 (a ++ b' :: c).
Proof. exact crc32_single_byte. Qed.
Print Assumptions C11_crc32_single_byte.

(** ... hence altering one byte inside the payload of one item of one shard file is detected by
    LoadFromDisk (error, never a silently different item set), for every database, shard, item and byte *)
Theorem C11_payload_byte_detected : forall shards k items j a b b' c,
  good_shards shards -> Forall (Forall is_bytes) shards ->
  nth_error shards k = Some items -> nth_error items j = Some (a ++ b :: c) ->
  b' < 256 -> b <> b' ->
  let items' := replace_nth j (a ++ b' :: c) items in
  load_data crc32 (mkImg (POk 1) (replace_file (stored_dir crc32 shards) (N.of_nat k)
                                 (Some (file_of crc32 items'))) empty_dir) = LErr.
Proof. exact payload_byte_detected. Qed.
Print Assumptions C11_payload_byte_detected.

(** a length prefix turned into zero (one altered byte for items shorter than 256 bytes) is taken for
    the end marker; with the repaired reader (D18: nothing may follow the end marker) the read of that
    shard ends in an error for EVERY record position and every checksum function — it used to succeed
    with a prefix of the items, which the XOR-of-CRCs checksum does not notice when the dropped items'
    CRCs cancel *)
From NV Require Import Codec.FrameProofs.
Theorem C11_zeroed_length_detected : forall crc items k,
  Forall good_v1 items -> (k < length items)%nat ->
  read_all crc 1 (zero4_at (length (concat (map encode_item (firstn k items)))) (file_of crc items))
  = (firstn k items, items_ck crc (firstn k items), RErr ECorrupt).
Proof. exact zeroed_length_detected_nth. Qed.
Print Assumptions C11_zeroed_length_detected.

(** with the repaired loader (D19: a manifest that names a file twice is refused) a files.json entry
    redirected to ANY other listed shard is detected — no assumption on the checksums, which coincide
    for many shards of regularly spaced keys — and so is every manifest with a repeated name, whatever
    the checksums and the files are *)
Theorem C11_redirect_detected_any : forall crc shards k j, good_shards shards ->
  (k < length shards)%nat -> (j < length shards)%nat -> k <> j ->
  let d := stored_dir crc shards in
  let names' := map (fun x => if x =? N.of_nat k then N.of_nat j else x) (names_of (length shards)) in
  load_data crc (mkImg (POk 1) (mkDir (POk names') (d_cks d) (d_file d)) empty_dir) = LErr.
Proof. exact redirect_detected_any. Qed.
Print Assumptions C11_redirect_detected_any.

Theorem C11_duplicate_names_rejected : forall crc v names cks file optional,
  has_dup names = true -> load_dir crc v (mkDir (POk names) cks file) optional = LErr.
Proof. exact duplicate_names_rejected. Qed.
Print Assumptions C11_duplicate_names_rejected.

(** "never stuck": the shard loader pool (Conc/LoaderPool.v: a feeder, an unbuffered channel, c loader
    goroutines; a loader that hits a read error goes on receiving) *)
From Coq Require Import List Arith Lia Bool Sorting.Permutation.
From NV Require Import Base.Sched Conc.LoaderPool Conc.LoaderPoolStmts Conc.LoaderPoolProofs.

(** for every number of shards, every set of failing shards, every c >= 1 and every schedule: a state
    that is not finished always has an enabled goroutine ... *)
Theorem C11_loader_no_deadlock : forall n b c sched, (1 <= c)%nat ->
  let y := runS true c (init n b c) sched in
  quiescentL y = true \/ exists i, enabled true c y i = true.
Proof. exact loader_no_deadlock. Qed.
Print Assumptions C11_loader_no_deadlock.

(** ... every enabled step strictly decreases a measure that starts at 3n + 3c + 4, so every run in
    which enabled goroutines are eventually scheduled terminates ... *)
Theorem C11_loader_terminates : forall n b c sched i, (1 <= c)%nat ->
  let y := runS true c (init n b c) sched in
  enabled true c y i = true -> (measure' (stepS true c y i) < measure' y)%nat.
Proof. exact loader_measure'. Qed.
Print Assumptions C11_loader_terminates.

(** ... and then every shard has been read exactly once and exactly the failing ones are reported *)
Theorem C11_loader_complete : forall n b c sched, (1 <= c)%nat ->
  let y := runS true c (init n b c) sched in
  quiescentL y = true ->
  Permutation (loaded (sh y)) (seq 0 n) /\ Permutation (errors (sh y)) (filter b (seq 0 n)).
Proof. exact loader_complete. Qed.
Print Assumptions C11_loader_complete.

(** regression witness: the original loaders (return on the first error) deadlock with three failing
    shards and two loader goroutines *)
Example C11_loader_original_stuck :
  let y := runS false 2 (init 3 (fun _ => true) 2) [0;1;2;0;0;1;0;2;0;0;0;1;2;0;1;2]%nat in
  quiescentL y = false /\ forallb (fun i => negb (enabled false 2 y i)) [0;1;2]%nat = true.
Proof. exact loader_original_stuck. Qed.
