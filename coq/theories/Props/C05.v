(** C05 — Backup and restore reproduce the stored snapshot exactly.  Statements only. *)
From NV Require Import Base.Bytes Codec.Frame Codec.FrameProofs Codec.FileImage Codec.FileImageStmts Codec.FileImageProofs
  Mvcc.Store Mvcc.Ops Mvcc.Spec Mvcc.InvDefs Mvcc.Stmts Mvcc.RefineStmt Mvcc.ViewSorted Mvcc.Backup Mvcc.BackupProofs
  Mvcc.IterProofs.
From Coq Require Import Sorting.Sorted.
Open Scope N_scope.

(** For every comparator (laws), checksum function, reachable state (any version history, any older or
    newer versions of the keys physically present), every open snapshot of it (latest or older), every
    refresh rate and ANY range pivots (hence any shard count / concurrency): loading the directory that
    StoreToDisk writes yields exactly the snapshot's items, each once and in order — provided the items
    are non-empty (length 0 is the format's terminator) and shorter than 2^32 bytes. *)
Theorem C05_backup_restore_exact : forall kcmp, cmp_laws kcmp -> forall crc,
  forall ops, wf_from 0 ops ->
    let d := fst (run kcmp db_init ops) in
    let sp := fst (sp_run kcmp spec_init ops) in
    forall x rate pivots, In x (sp_snaps sp) -> (0 < ss_ref x)%Z -> (0 <= rate)%Z ->
      items_good (ss_items x) ->
      load_data crc (backup_image kcmp crc (store d) (ss_sn x) rate pivots) = LOk (ss_items x).
Proof. exact backup_restore_exact. Qed.
Print Assumptions C05_backup_restore_exact.

(** The restored instance obeys the set / snapshot specification for every subsequent history
    (starting with the NewSnapshot that LoadFromDisk performs): C01/C02 carry over. *)
Theorem C05_restored_refines : forall kcmp, cmp_laws kcmp ->
  forall items ops, StronglySorted (key_lt kcmp) items -> wf_from 0 ops ->
    map proj (snd (run kcmp (restored_db items) ops)) =
    map proj (snd (sp_run kcmp (restored_spec items) ops)).
Proof. exact restored_refines. Qed.
Print Assumptions C05_restored_refines.

(** the pieces: the visitor's shards concatenate to the view; an intact directory loads exactly *)
Theorem C05_visitor_partition : forall kcmp, cmp_laws kcmp ->
  forall cur s sn rate pivots, store_inv kcmp cur s -> (0 <= rate)%Z ->
    concat (visitor kcmp true s sn rate pivots) = view sn s.
Proof. exact visitor_partition. Qed.
Print Assumptions C05_visitor_partition.

Theorem C05_load_intact : forall crc shards, good_shards shards ->
  load_data crc (stored_image crc shards) = LOk (concat shards).
Proof. exact load_intact. Qed.
Print Assumptions C05_load_intact.

(** WITH delta interleaving and concurrent mutation (Mvcc/Delta.v; scan-step granularity): the stored
    snapshot is released while the scan runs, other goroutines' operations — deletes, new snapshots,
    GC passes and collection-worker steps that physically remove versions the snapshot can see — run
    before the scan and between any two delivered items, collection workers record such versions in the
    delta before unlinking them.  For every history, snapshot open at the start, pivots, refresh rate
    and interleaved segments: if the scan ran to its end, an item is in the snapshot iff it is in a data
    shard or in the delta, and the concatenated data shards are strictly increasing ... *)
From NV Require Import Mvcc.Live Mvcc.Delta Mvcc.DeltaStmts Mvcc.DeltaProofs.
Theorem C05_delta_backup : forall kcmp, cmp_laws kcmp -> stmt_delta_backup kcmp.
Proof. exact delta_backup_exact. Qed.
Print Assumptions C05_delta_backup.

(** ... hence loading the data shards and Putting every delta item (Puts of present keys rejected)
    yields exactly the snapshot *)
Theorem C05_delta_restore : forall kcmp, cmp_laws kcmp -> stmt_delta_restore kcmp.
Proof. exact delta_restore_exact. Qed.
Print Assumptions C05_delta_restore.

(** non-vacuity: a history in which the released snapshot's items are deleted and collected ahead of,
    under and behind the scan *)
Example C05_delta_nonvacuous := delta_backup_nonvacuous.
