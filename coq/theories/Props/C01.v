(** C01 — Snapshot isolation: an open snapshot is an immutable point-in-time view.  Statements only. *)
From NV Require Import Base.Bytes Codec.Frame Mvcc.Store Mvcc.Ops Mvcc.Spec Mvcc.InvDefs Mvcc.Stmts
  Mvcc.RefineStmt Mvcc.Refine Mvcc.IterProofs Mvcc.ViewSorted Mvcc.CmpInst.
Open Scope N_scope.

(** In every reachable state — after ANY history of Puts, Deletes by any number of writers, creation
    and closing of other (older or newer) snapshots in any order, GC passes and collection-worker
    steps interleaved anywhere — the physical store still presents to every open snapshot exactly the
    list of items that was live when it was created. *)
Theorem C01_snapshot_isolation : forall kcmp, cmp_laws kcmp -> forall ops, wf_from 0 ops ->
  let d := fst (run kcmp db_init ops) in
  let sp := fst (sp_run kcmp spec_init ops) in
  forall x, In x (sp_snaps sp) -> (0 < ss_ref x)%Z -> view (ss_sn x) (store d) = ss_items x.
Proof. exact gc_precision. Qed.
Print Assumptions C01_snapshot_isolation.

(** ... and what a scan through the real iterator loop (SeekFirst/Valid/Get/Next, any refresh rate)
    returns IS that view: each item once, in comparator order *)
Theorem C01_scan_is_view : forall kcmp, cmp_laws kcmp ->
  forall cur s sn rate, store_inv kcmp cur s -> (0 <= rate)%Z -> scan_with_rate kcmp s sn rate = view sn s.
Proof. exact scan_any_rate. Qed.
Print Assumptions C01_scan_is_view.

Theorem C01_view_strictly_increasing : forall kcmp cur s sn, store_inv kcmp cur s ->
  Sorted.StronglySorted (key_lt kcmp) (view sn s).
Proof. exact view_strict. Qed.
Print Assumptions C01_view_strictly_increasing.

(** the observable form: every Scan and every Count() in every history equals the specification's,
    where a snapshot is the list frozen at its creation (this is the C02 refinement theorem; Scan and
    OSnap outputs are part of the compared observables) *)
Theorem C01_observables : forall kcmp, cmp_laws kcmp -> forall ops, wf_from 0 ops ->
  map proj (snd (run kcmp db_init ops)) = map proj (snd (sp_run kcmp spec_init ops)).
Proof. exact mvcc_refines_spec. Qed.
Print Assumptions C01_observables.

(** non-vacuity: snapshot 1 stays [[1];[2]] while its items are deleted, re-inserted, snapshot 2 is
    created and closed first, and the workers run *)
Example C01_nonvacuous :
  let ops := [NewWriter; Put 0 [1]; Put 0 [2]; NewSnapshot; Delete 0 [1]; Delete 0 [2]; Put 0 [2]; NewSnapshot;
              CloseSnap 2; GC; WorkerStep; Put 0 [3]; NewSnapshot; Scan 1; Scan 3] in
  wf_from 0 ops /\
  skipn 13 (snd (run bytes_cmp db_init ops)) = [OItems (Some [[1]; [2]]); OItems (Some [[2]; [3]])].
Proof. split; [cbn; repeat split; lia|vm_compute; reflexivity]. Qed.
