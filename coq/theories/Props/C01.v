(** C01 — Snapshot isolation: an open snapshot is an immutable point-in-time view.  Statements only. *)
From NV Require Import Base.Bytes Codec.Frame Mvcc.Store Mvcc.Ops Mvcc.Spec Mvcc.InvDefs Mvcc.Stmts
  Mvcc.RefineStmt Mvcc.Refine Mvcc.IterProofs Mvcc.ViewSorted Mvcc.CmpInst.
Open Scope N_scope.

(** In every reachable state — after ANY history of Puts, Deletes by any number of writers, creation
    and closing of other (older or newer) snapshots in any order, GC passes and collection-worker
    steps interleaved anywhere — the physical store still presents to every open snapshot exactly the
    list of items that was live when it was created. *)
Theorem C01_snapshot_isolation : forall kcmp, cmp_laws kcmp -> forall ops, wf_from 0 ops ->
  let d := fst (run kcmp db_init ops) in
  let sp := fst (sp_run kcmp spec_init ops) in
  forall x, In x (sp_snaps sp) -> (0 < ss_ref x)%Z -> view (ss_sn x) (store d) = ss_items x.
Proof. exact gc_precision. Qed.
Print Assumptions C01_snapshot_isolation.

(** ... and what a scan through the real iterator loop (SeekFirst/Valid/Get/Next, any refresh rate)
    returns IS that view: each item once, in comparator order *)
Theorem C01_scan_is_view : forall kcmp, cmp_laws kcmp ->
  forall cur s sn rate, store_inv kcmp cur s -> (0 <= rate)%Z -> scan_with_rate kcmp s sn rate = view sn s.
Proof. exact scan_any_rate. Qed.
Print Assumptions C01_scan_is_view.

Theorem C01_view_strictly_increasing : forall kcmp cur s sn, store_inv kcmp cur s ->
  Sorted.StronglySorted (key_lt kcmp) (view sn s).
Proof. exact view_strict. Qed.
Print Assumptions C01_view_strictly_increasing.

(** the observable form: every Scan and every Count() in every history equals the specification's,
    where a snapshot is the list frozen at its creation (this is the C02 refinement theorem; Scan and
    OSnap outputs are part of the compared observables) *)
Theorem C01_observables : forall kcmp, cmp_laws kcmp -> forall ops, wf_from 0 ops ->
  map proj (snd (run kcmp db_init ops)) = map proj (snd (sp_run kcmp spec_init ops)).
Proof. exact mvcc_refines_spec. Qed.
Print Assumptions C01_observables.

(** non-vacuity: snapshot 1 stays [[1];[2]] while its items are deleted, re-inserted, snapshot 2 is
    created and closed first, and the workers run *)
Example C01_nonvacuous :
  let ops := [NewWriter; Put 0 [1]; Put 0 [2]; NewSnapshot; Delete 0 [1]; Delete 0 [2]; Put 0 [2]; NewSnapshot;
              CloseSnap 2; GC; WorkerStep; Put 0 [3]; NewSnapshot; Scan 1; Scan 3] in
  wf_from 0 ops /\
  skipn 13 (snd (run bytes_cmp db_init ops)) = [OItems (Some [[1]; [2]]); OItems (Some [[2]; [3]])].
Proof. split; [cbn; repeat split; lia|vm_compute; reflexivity]. Qed.

(** Scan-step granularity on a MOVING store (Mvcc/Live.v): a long-lived iterator of an open snapshot,
    with ANY operations of other goroutines before its SeekFirst and between any two of its Next steps
    (Puts and Deletes of the same and other keys, same-epoch and cross-epoch, new snapshots, closing of
    other snapshots, GC passes and collection-worker steps that physically remove versions), any
    refresh rate: step k stands on the k-th item the snapshot held, then the scan is exhausted. *)
From NV Require Import Mvcc.Live Mvcc.LiveStmts Mvcc.LiveProofs.
Theorem C01_live_scan : forall kcmp, cmp_laws kcmp -> forall pre sn rate seg0 segs,
  wf_from 0 (pre ++ seg0 ++ concat segs) ->
  let d0 := fst (run kcmp db_init pre) in
  snap_open d0 sn = true ->
  open_along kcmp d0 sn (seg0 :: segs) = true ->
  live_scan kcmp d0 sn rate seg0 segs
  = map (fun k => nth_error (view sn (store d0)) k) (seq 0 (S (length segs))).
Proof. exact live_scan_exact. Qed.
Print Assumptions C01_live_scan.

(** the versions an open snapshot can see keep their identity, bytes and birth epoch (the node an
    iterator stands on is never removed under it) *)
Theorem C01_live_node_stays : forall kcmp, cmp_laws kcmp -> stmt_live_node_stays_open kcmp.
Proof. exact live_node_stays_open. Qed.
Print Assumptions C01_live_node_stays.
