(** C20 — Node table and node list behave as their sequential models.  Statements only. *)
From NV Require Import Base.Bytes Table.NodeTable Table.NodeTableProofs Table.NodeList Table.NodeListProofs.
Open Scope N_scope.

(** For every hash function (constant ones included) and every sequence of Update/Get/Remove,
    the outputs (updated/success flag, returned pointer, ItemsCount after the op) of the
    fast+overflow table equal those of an association map with distinct keys; afterwards Get
    agrees on every key and ItemsCount is the number of distinct keys. *)
Theorem C20_nt_refines_map : forall (hash : N -> N) (ops : list op),
  snd (nt_run hash nt_empty ops) = snd (a_run [] ops) /\
  (forall k, nt_get hash (fst (nt_run hash nt_empty ops)) k = a_get (fst (a_run [] ops)) k) /\
  nt_count (fst (nt_run hash nt_empty ops)) = Z.of_nat (length (fst (a_run [] ops))) /\
  NoDup (map fst (fst (a_run [] ops))).
Proof. exact nt_refines_map. Qed.
Print Assumptions C20_nt_refines_map.

Theorem C20_nt_memory : forall (hash : N -> N) (ops : list op),
  nt_memory (fst (nt_run hash nt_empty ops)) = (42 * Z.of_nat (length (fst (a_run [] ops))))%Z.
Proof. exact nt_memory_spec. Qed.
Print Assumptions C20_nt_memory.

(** Node list: with the chain invariant (links agree with an abstract list [g] of distinct nodes),
    Keys returns the keys in list order, Add of a fresh node conses, Remove removes the first node
    with an equal key and returns it; each preserves the invariant. *)
Theorem C20_nl_keys : forall l g, NLInv l g -> nl_keys l = Some (map nkey g).
Proof. exact keys_spec. Qed.
Print Assumptions C20_nl_keys.

Theorem C20_nl_add : forall l g n, NLInv l g -> ~ In (nid n) (map nid g) -> NLInv (nl_add l n) (n :: g).
Proof. exact add_inv. Qed.
Print Assumptions C20_nl_add.

Theorem C20_nl_remove : forall l g key, NLInv l g ->
  exists l' x, nl_remove l key = Some (l', x) /\
    x = snd (spec_remove key g) /\ NLInv l' (fst (spec_remove key g)).
Proof. exact remove_spec. Qed.
Print Assumptions C20_nl_remove.

Example C20_nl_empty_inv : NLInv nl_empty [].
Proof. repeat split; cbn; auto; constructor. Qed.

(** non-vacuity: all keys collide, remove the fast entry of a bucket with overflow, re-add *)
Example C20_nonvacuous :
  snd (nt_run (fun _ => 7) nt_empty [OUpdate 1 10; OUpdate 2 11; OUpdate 3 12; ORemove 1; OGet 2; OUpdate 1 13; OGet 1])
  = [(false, None, 1%Z); (false, None, 2%Z); (false, None, 3%Z); (true, Some (1, 10), 2%Z);
     (true, Some (2, 11), 2%Z); (false, None, 3%Z); (true, Some (1, 13), 3%Z)].
Proof. vm_compute. reflexivity. Qed.
