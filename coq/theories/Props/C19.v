(** C19 — Item encoding, file framing and checksums round-trip.  Statements only. *)
From NV Require Import Base.Bytes Codec.Frame Codec.FrameProofs Codec.Crc32.
Open Scope N_scope.

(** Any sequence of non-empty items (lengths 1 .. 2^32-1, arbitrary bytes) written through the
    writer and closed is read back as the same sequence followed by end-of-stream, and the reader's
    checksum equals the writer's; for every checksum function. *)
Theorem C19_frame_roundtrip_v1 : forall (crc : list N -> N) (items : list (list N)),
  Forall (fun bs => 0 < lenN bs < 4294967296) items ->
  read_all crc 1 (file_of crc items) = (items, w_ck (write_items crc items), RTerm).
Proof. exact frame_roundtrip_v1. Qed.
Print Assumptions C19_frame_roundtrip_v1.

(** A version-0 reader decodes files framed with 2-byte prefixes. *)
Theorem C19_frame_roundtrip_v0 : forall (crc : list N -> N) (items : list (list N)),
  Forall (fun bs => 0 < lenN bs < 65536) items ->
  read_all crc 0 (file_of_v0 items) = (items, items_ck_v0 crc items, RTerm).
Proof. exact frame_roundtrip_v0. Qed.
Print Assumptions C19_frame_roundtrip_v0.

(** Framing is injective (bytes that look like prefixes/terminators inside items do not matter). *)
Theorem C19_frame_injective : forall (crc : list N -> N) a b,
  Forall (fun bs => 0 < lenN bs < 4294967296) a -> Forall (fun bs => 0 < lenN bs < 4294967296) b ->
  file_of crc a = file_of crc b -> a = b.
Proof. exact frame_injective. Qed.
Print Assumptions C19_frame_injective.

Theorem C19_kv_roundtrip : forall k v, lenN k < 65536 -> kv_from_bytes (kv_to_bytes k v) = (k, v).
Proof. exact kv_roundtrip. Qed.
Print Assumptions C19_kv_roundtrip.

Theorem C19_kv_cmp_spec : forall k v k' v', lenN k < 65536 -> lenN k' < 65536 ->
  compare_kv (kv_to_bytes k v) (kv_to_bytes k' v') = bytes_cmp k k'.
Proof. exact kv_cmp_spec. Qed.
Print Assumptions C19_kv_cmp_spec.

(** non-vacuity: a concrete sequence with payload bytes that look like prefixes and terminators *)
Example C19_nonvacuous :
  let items := [[0;0;0;0]; [0;0;0;1;7]; [255]] in
  Forall (fun bs => 0 < lenN bs < 4294967296) items /\
  read_all crc32 1 (file_of crc32 items) = (items, w_ck (write_items crc32 items), RTerm).
Proof. split; [repeat constructor|vm_compute; reflexivity]. Qed.
