(** C16 — Access barrier safety: destruction waits for earlier accessors, in order, once.
    Statements only.  Machine: Conc/Barrier.v (one step per atomic segment of access_barrier.go). *)
From Coq Require Import List Arith ZArith Lia Bool.
From NV Require Import Base.Sched Conc.Barrier Conc.BarrierProofs Conc.BarrierExclStmts Conc.BarrierExclProofs.
Import ListNotations.
Open Scope Z_scope.

(** For ALL programs over Acquire / Release (of any held token; nested holders, flushes by a goroutine
    that itself holds a token) / FlushSession, any number of goroutines, and ALL schedules of the atomic
    steps, with fewer than 2^30 operations in total (so fewer than 2^30 simultaneous accessors — the
    int32 offset trick of the implementation):
      - the "unsafe reclamation" panic is unreachable;
      - destructors run in flush order 1,2,..,k, each exactly once, each with the object of its flush;
      - while a goroutine holds a token of a session, neither that session's flush nor any later flush
        has been destructed (so the destructor of flush n runs only after every accessor whose Acquire
        completed before that flush has released; an accessor is never counted in a destructed session). *)
Theorem C16_barrier_safe : forall progs sched,
  Z.of_nat (length (concat progs)) < offset ->
  let y := runS true (init progs) sched in
  panicked (sh y) = false /\
  map fst (destructed (sh y)) = seq 1 (length (destructed (sh y))) /\
  (forall q r, In (q, r) (destructed (sh y)) ->
     exists s, (s < length (sessions (sh y)))%nat /\ seqno (get (sh y) s) = q /\ oref (get (sh y) s) = r /\ q <> 0%nat) /\
  (forall t s, In t (ths y) -> In s (pers_of t) ->
     forall q r, In (q, r) (destructed (sh y)) ->
       seqno (get (sh y) s) = 0%nat \/ (q < seqno (get (sh y) s))%nat) /\
  (length (destructed (sh y)) <= activeSeqno (sh y))%nat.
Proof. exact barrier_safe. Qed.
Print Assumptions C16_barrier_safe.

(** non-vacuity: nested holders, a flush while holding a token, two flushers *)
Example C16_nonvacuous :
  let progs := [[OAcquire; OFlush 7; ORelease 0]; [OAcquire; OAcquire; ORelease 1; OFlush 8; ORelease 0]] in
  let y := runS true (init progs) (repeat 0%nat 40 ++ repeat 1%nat 80 ++ repeat 0%nat 40) in
  Z.of_nat (length (concat progs)) < offset /\
  quiescent shared local pers op result y = true /\ destructed (sh y) = [(1%nat, 7%nat); (2%nat, 8%nat)].
Proof. vm_compute. repeat split; reflexivity. Qed.

(** Exclusiveness of destruction, ALL programs and ALL schedules: at most one goroutine is inside
    doCleanup (between winning the try-lock and resetting it), the try-lock flag is set exactly then,
    and the only step that extends the list of destructed sessions is a step of that goroutine — so
    the destructor of a flush never starts while the destructor of an earlier flush has not returned,
    however long a callback takes. *)
Theorem C16_one_cleaner : forall progs sched, Z.of_nat (length (concat progs)) < offset ->
  let y := runS true (init progs) sched in
  (forall i j ti tj, nth_error (ths y) i = Some ti -> nth_error (ths y) j = Some tj ->
     in_cleanup (cur ti) = true -> in_cleanup (cur tj) = true -> i = j) /\
  (running (sh y) = true <-> exists i t, nth_error (ths y) i = Some t /\ in_cleanup (cur t) = true).
Proof. exact one_cleaner. Qed.
Print Assumptions C16_one_cleaner.

Theorem C16_destructor_in_cleanup : forall progs sched i, Z.of_nat (length (concat progs)) < offset ->
  let y := runS true (init progs) sched in
  let y' := stepS true y i in
  destructed (sh y') <> destructed (sh y) ->
  (exists t c k, nth_error (ths y) i = Some t /\ cur t = Some (LClean c k)) /\
  running (sh y) = true /\
  exists e, destructed (sh y') = destructed (sh y) ++ [e].
Proof. exact destructor_in_cleanup. Qed.
Print Assumptions C16_destructor_in_cleanup.
