(** C03 — Concurrent writers are linearizable with respect to the set semantics.  Statements only.
    Machine: Conc/NitroConc.v (writers' Put / Delete / GetNode between two snapshots; the skiplist is an
    atomic ordered set at this level — C13 is the statement about that layering). *)
From NV Require Import Base.Bytes Codec.Frame Base.Sched Mvcc.Store Mvcc.Ops Mvcc.Spec Mvcc.InvDefs Mvcc.Stmts Mvcc.CmpInst
  Conc.NitroConc Conc.NitroConcStmts Conc.NitroConcProofs.
From Coq Require Import List ZArith Bool.
Import ListNotations.
Open Scope N_scope.

(** For every comparator (laws), every initial store satisfying the store invariant (keys born in
    earlier epochs, dead-but-present versions, ...), ANY number of writers with ANY programs over
    overlapping keys, and ALL schedules of their atomic steps: the store invariant is preserved (at
    most one live version per key: of concurrent Puts/Deletes of one key exactly one succeeds per state
    change); the ghost log — every operation entered at a step between its call and its return — when
    replayed sequentially on the set specification reproduces every result and ends in the store's
    abstract content; and the log holds exactly each writer's completed operations in program order. *)
Theorem C03_nitro_linearizable : forall kcmp, cmp_laws kcmp ->
  forall s0 c nv progs sched,
    store_inv kcmp c s0 -> (forall v, In v s0 -> vid v < nv) -> 1 <= c ->
    let y := runS kcmp (init s0 c nv progs) sched in
    store_inv kcmp c (store (sh y)) /\
    (exists sp, replay_lin kcmp (spec0 s0 nv c) (lin (sh y)) = Some sp /\
                sp_live sp = live_entries (store (sh y)) /\ sp_next sp = next_vid (sh y)) /\
    (forall i t prog, nth_error (ths y) i = Some t -> nth_error progs i = Some prog ->
       let n := length (done t) in
       (lin_of i (lin (sh y)) = combine (firstn n prog) (done t) \/
        exists o r, nth_error prog n = Some o /\ cur t <> None /\
                    lin_of i (lin (sh y)) = combine (firstn n prog) (done t) ++ [(o, r)])).
Proof. exact nitro_linearizable. Qed.
Print Assumptions C03_nitro_linearizable.

(** The writers' counts add up to the change of the set (so the next snapshot's Count() is the
    linearization's outcome), and their garbage lists hold exactly the versions that died in this
    epoch, each once — whatever the contention on one key. *)
Theorem C03_quiescent_counts : forall kcmp, cmp_laws kcmp ->
  forall s0 c nv progs sched,
    store_inv kcmp c s0 -> (forall v, In v s0 -> vid v < nv) -> 1 <= c ->
    (forall v, In v s0 -> vdead v <> c) ->
    let y := runS kcmp (init s0 c nv progs) sched in
    quiescentN y = true ->
    fold_right Z.add 0%Z (map (fun t => w_count (pers_of t)) (ths y))
      = (Z.of_nat (length (live_entries (store (sh y)))) - Z.of_nat (length (live_entries s0)))%Z /\
    let g := concat (map (fun t => w_gc (pers_of t)) (ths y)) in
    NoDup g /\ forall i, In i g <-> exists v, In v (store (sh y)) /\ vid v = i /\ vdead v = c.
Proof. exact quiescent_counts. Qed.
Print Assumptions C03_quiescent_counts.

(** non-vacuity: two deleters racing on one cross-epoch key while a third writer re-inserts it *)
Example C03_nonvacuous :
  let s0 := [mkVer [1] 1 0 0] in
  let progs := [[ODelete [1]]; [ODelete [1]]; [OPut [1]; OGet [1]]] in
  let y := runS bytes_cmp (init s0 2 1 progs) [0;1;0;2;2;1;2;2]%nat in
  map (fun t => done t) (ths y) = [[RDel (Some 0) true]; [RDel (Some 0) false]; [RNode (Some 1); RNode (Some 1)]] /\
  option_map sp_live (replay_lin bytes_cmp (spec0 s0 1 2) (lin (sh y))) = Some [(1, [1])].
Proof. vm_compute. split; reflexivity. Qed.
