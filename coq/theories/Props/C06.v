(** C06 — Garbage collection is precise and complete.  Statements only. *)
From Coq Require Import List Arith ZArith Lia Bool.
From NV Require Import Base.Sched Conc.Snap Conc.SnapProofs.
From NV Require Import Base.Bytes Codec.Frame Mvcc.Store Mvcc.Ops Mvcc.Spec Mvcc.InvDefs Mvcc.Stmts
  Mvcc.RefineStmt Mvcc.Refine Mvcc.CmpInst.
Import ListNotations.

(** Precision: in every reachable state every open snapshot's view of the physical store is its
    frozen content — a version some open snapshot can see is never physically removed, whatever the
    order of Closes and the timing of the collection workers. *)
Theorem C06_gc_precision : forall kcmp, cmp_laws kcmp -> forall ops, wf_from 0 ops ->
  let d := fst (run kcmp db_init ops) in
  let sp := fst (sp_run kcmp spec_init ops) in
  forall x, In x (sp_snaps sp) -> (0 < ss_ref x)%Z -> view (ss_sn x) (store d) = ss_items x.
Proof. exact gc_precision. Qed.
Print Assumptions C06_gc_precision.

(** Completeness: after any history, a GC() pass followed by the workers draining leaves a dead
    version in the store only if it died in the current epoch (its snapshot does not exist yet) or an
    open snapshot has a number <= its deadSn (collection is in snapshot order); nothing is pending. *)
Theorem C06_gc_complete : forall kcmp, cmp_laws kcmp -> forall ops, wf_from 0 ops ->
  let d := fst (run kcmp db_init (ops ++ [GC; Drain])) in
  gcchan d = [] /\
  forall v, In v (store d) ->
    (vdead v = 0 \/ vdead v = currSn d \/ exists s, In s (snaps d) /\ s_sn s <= vdead v)%N.
Proof. exact gc_complete. Qed.
Print Assumptions C06_gc_complete.

(** accounting: ItemsCount + pending writer counts = number of live versions, in every reachable state *)
Theorem C06_counts : forall kcmp, cmp_laws kcmp -> forall ops, wf_from 0 ops ->
  let d := fst (run kcmp db_init ops) in
  (itemsCount d + fold_left (fun a wr => a + w_count wr) (writers d) 0)%Z
  = Z.of_nat (length (filter alive (store d))).
Proof. exact counts. Qed.
Print Assumptions C06_counts.

(** Closes racing from any goroutines (all schedules of the atomic steps): lists are handed to the
    workers in snapshot order, each once, only after the snapshot was retired ... *)
Theorem C06_collector_safe : forall n owner progs sched,
  let y := runS true (Snap.init n owner progs) sched in
  sent (sh y) = seq 1 (lastgc (sh y)) /\
  (forall s, In s (sent (sh y)) -> retired (sh y) s = 1%nat /\ in_ret (sh y) s = false) /\
  (forall s, in_ret (sh y) s = true -> (lastgc (sh y) < s <= n)%nat /\ retired (sh y) s = 1%nat) /\
  (lastgc (sh y) <= n)%nat.
Proof. exact collector_safe. Qed.
Print Assumptions C06_collector_safe.

(** ... and no order of Closes strands garbage: from every reachable quiescent state one GC pass
    collects the whole consecutive run of retired snapshots. *)
Theorem C06_collector_complete : forall n owner progs sched,
  let y := runS true (Snap.init n owner progs) sched in
  quiescent Snap.shared Snap.local Snap.pers Snap.op Snap.result y = true ->
  gcflag (sh y) = false /\
  gcflag (gc_pass (sh y)) = false /\
  forall k, (k <= n)%nat -> (forall s, (1 <= s <= k)%nat -> retired (sh y) s = 1%nat) ->
    (k <= lastgc (gc_pass (sh y)))%nat.
Proof. exact collector_complete. Qed.
Print Assumptions C06_collector_complete.
