(** C02 — Put/Delete/lookup implement a set keyed by the comparator (sequential semantics).
    Statements only.  Model: Mvcc/Ops.v (transcription of nitro.go Put2/Delete2/DeleteNode/GetNode/
    NewSnapshot/Open/Close/GC/collection worker over the version store); specification: Mvcc/Spec.v
    (a sorted list set with fresh handles, snapshots frozen at creation). *)
From NV Require Import Base.Bytes Codec.Frame Mvcc.Store Mvcc.Ops Mvcc.Spec Mvcc.InvDefs Mvcc.Stmts
  Mvcc.RefineStmt Mvcc.Refine Mvcc.CmpInst Mvcc.OpsProofs.
Open Scope N_scope.

(** For every comparator that is a total preorder and EVERY finite operation sequence issued through
    existing writers — Put, Delete, GetNode, DeleteNode through any (also stale) handle, NewWriter,
    NewSnapshot, Open/Close in any order, GC, collection-worker steps at any point, Scan, ItemsCount —
    every output of the model equals the specification's: Put returns a node iff no live item with an
    equal key exists, Delete/DeleteNode succeed iff the item is live and remove exactly it, GetNode finds
    it iff live, each new snapshot's Count() and ItemsCount equal the size of the reference set, and a
    scan of a snapshot returns the reference set's content at its creation. *)
Theorem C02_mvcc_refines_set : forall kcmp, cmp_laws kcmp -> forall ops, wf_from 0 ops ->
  map proj (snd (run kcmp db_init ops)) = map proj (snd (sp_run kcmp spec_init ops)).
Proof. exact mvcc_refines_spec. Qed.
Print Assumptions C02_mvcc_refines_set.

(** the store invariant (sorted by (key, bornSn); born <= current epoch; dead = 0 or born < dead <=
    current; an older version of a key is dead before the next is born; distinct node ids) holds in
    every reachable state *)
Theorem C02_reachable_inv : forall kcmp, cmp_laws kcmp -> forall ops, wf_from 0 ops ->
  let d := fst (run kcmp db_init ops) in store_inv kcmp (currSn d) (store d).
Proof. exact reachable_inv. Qed.
Print Assumptions C02_reachable_inv.

(** ItemsCount plus the writers' pending counts is the number of live items, always *)
Theorem C02_counts : forall kcmp, cmp_laws kcmp -> forall ops, wf_from 0 ops ->
  let d := fst (run kcmp db_init ops) in
  (itemsCount d + fold_left (fun a wr => a + w_count wr) (writers d) 0)%Z
  = Z.of_nat (length (filter alive (store d))).
Proof. exact counts. Qed.
Print Assumptions C02_counts.

(** the decision at the heart of Put: the path-search test (exact match, or live predecessor with an
    equal key) is true iff a live version with an equal key exists anywhere in the store *)
Theorem C02_put_rejects_iff_live : forall kcmp, cmp_laws kcmp ->
  forall cur s bs, store_inv kcmp cur s ->
    (let '(pred, succ, found) := find_ins kcmp bs cur s in found || exist_eq kcmp bs pred) = has_live kcmp bs s.
Proof. exact put_rejects_iff_live. Qed.
Print Assumptions C02_put_rejects_iff_live.

Theorem C02_default_cmp_laws : cmp_laws bytes_cmp.
Proof. exact bytes_cmp_laws. Qed.
Print Assumptions C02_default_cmp_laws.
Theorem C02_kv_cmp_laws : cmp_laws compare_kv.
Proof. exact compare_kv_laws. Qed.
Print Assumptions C02_kv_cmp_laws.

(** non-vacuity: a history with a cross-epoch delete, a re-insert, a stale DeleteNode and worker steps *)
Example C02_nonvacuous :
  let ops := [NewWriter; Put 0 [1]; Put 0 [2]; NewSnapshot; Delete 0 [1]; Put 0 [1]; DeleteNode 0 0;
              NewSnapshot; Scan 1; Scan 2; CloseSnap 1; GC; WorkerStep; Scan 2; ItemsCount] in
  wf_from 0 ops /\
  map proj (snd (run bytes_cmp db_init ops)) =
  [OUnit; ONode (Some 0); ONode (Some 1); OSnap 1 2%Z; ODel (Some 0) true; ONode (Some 2); OBool false;
   OSnap 2 2%Z; OItems (Some [[1]; [2]]); OItems (Some [[1]; [2]]); OUnit; OUnit; OUnit;
   OItems (Some [[1]; [2]]); OCount 2%Z].
Proof. split; [cbn; repeat split; lia|vm_compute; reflexivity]. Qed.
