(** C14 — Skiplist structure and statistics are consistent at quiescence.  Statements only. *)
From Coq Require Import List Arith ZArith Lia Bool Sorting.Sorted.
From NV Require Import Base.Sched Skip.Model Skip.Stmts Skip.Proofs Skip.Builder Skip.C18Stmts Skip.C18Proofs Skip.HeightStmts Skip.HeightProofs.
Import ListNotations.
Open Scope Z_scope.

(** after ANY concurrent history (all programs, all schedules), whenever no operation is in flight: *)
Theorem C14_quiescent_clean : forall progs sched, let y := runS (init progs) sched in
  quiescentS y = true ->
  exists c, chain_ids (sh y) 0 = Some c /\
    (forall n, In n c -> marked (sh y) n 0 = false) /\
    st_soft (sts (sh y)) = 0 /\
    (forall l, nth l (st_nodes (sts (sh y))) 0 =
               Z.of_nat (length (filter (fun n => Nat.eqb (lvl (node (sh y) n)) l) c))).
Proof. exact quiescent_clean. Qed.
Print Assumptions C14_quiescent_clean.

Theorem C14_l0_sorted : forall progs sched, let y := runS (init progs) sched in
  exists c, chain_ids (sh y) 0 = Some c /\
            StronglySorted Z.lt (map (fun n => key (node (sh y) n)) c).
Proof. exact l0_sorted. Qed.
Print Assumptions C14_l0_sorted.

(** every level chain (marked nodes included) reaches the tail and is strictly increasing, in EVERY
    reachable state — acyclic and duplicate-free on every level, not only at quiescence *)
Theorem C14_levels_sorted : forall progs sched l, let y := runS (init progs) sched in
  exists c, chain_ids (sh y) l = Some c /\ StronglySorted Z.lt (map (fun n => key (node (sh y) n)) c).
Proof. exact levels_sorted. Qed.
Print Assumptions C14_levels_sorted.

(** the unmarked nodes of every level chain are exactly the level-0 nodes of at least that height, in
    the same order: each level is a sub-sequence of the level below and every live node is linked at
    all levels up to its height *)
Theorem C14_levels : forall progs sched, let y := runS (init progs) sched in
  quiescentS y = true ->
  forall l, (l <= sl_level (sh y))%nat ->
    exists c0 cl, chain_ids (sh y) 0 = Some c0 /\ chain_ids (sh y) l = Some cl /\
      filter (fun n => negb (marked (sh y) n l)) cl = filter (fun n => (l <=? lvl (node (sh y) n))%nat) c0.
Proof. exact levels. Qed.
Print Assumptions C14_levels.

(** ... and, with the twice repaired Insert4 (re-check after linking, successor mark test before
    linking), no marked node is linked at ANY level at quiescence — false for the code before either
    repair (D9, D15) *)
Theorem C14_levels_clean : forall progs sched, let y := runS (init progs) sched in
  quiescentS y = true ->
  forall l, (l <= sl_level (sh y))%nat ->
    exists cl, chain_ids (sh y) l = Some cl /\ forall n, In n cl -> marked (sh y) n l = false.
Proof. exact levels_clean. Qed.
Print Assumptions C14_levels_clean.

(** after bulk building (and hence after restore, which assembles segments): *)
Theorem C14_assemble : forall segs, items_ok segs ->
  let sh := assemble segs in
  forall l, (l <= maxLevel)%nat ->
    exists c, chain_ids sh l = Some c /\
      map (fun n => key (node sh n)) c = map fst (filter (fun e => (l <=? snd e)%nat) (concat segs)) /\
      (forall n, In n c -> marked sh n l = false /\ (l <= lvl (node sh n))%nat).
Proof. exact assemble_concat. Qed.
Print Assumptions C14_assemble.

Theorem C14_assemble_stats : forall segs, items_ok segs ->
  let sh := assemble segs in
  sl_level sh = fold_right Nat.max 0%nat (map snd (concat segs)) /\
  st_soft (sts sh) = 0 /\ st_allocs (sts sh) = Z.of_nat (length (concat segs)) /\
  forall l, (l <= maxLevel)%nat ->
    nth l (st_nodes (sts sh)) 0 = Z.of_nat (length (filter (fun e => Nat.eqb (snd e) l) (concat segs))).
Proof. exact assemble_stats. Qed.
Print Assumptions C14_assemble_stats.

(** The shared height s.level under ALL programs and ALL schedules (NewLevel: load, then CAS to
    level+1; the builder's Segment.Add draws its levels through the same NewLevel): it covers every
    tower and stays within the maximum in every reachable state, never goes down, and is exactly the
    tallest tower ever allocated.  Searches and unlink passes start at s.level, so a tower above it
    would be invisible to them. *)
Theorem C14_height_covers : forall progs sched, let y := runS (init progs) sched in
  (sl_level (sh y) <= maxLevel)%nat /\
  forall n, (2 <= n < length (heap (sh y)))%nat -> (lvl (node (sh y) n) <= sl_level (sh y))%nat.
Proof. exact height_covers. Qed.
Print Assumptions C14_height_covers.

Theorem C14_height_monotone : forall progs sched i, let y := runS (init progs) sched in
  (sl_level (sh y) <= sl_level (sh (stepS y i)) <= S (sl_level (sh y)))%nat.
Proof. exact height_monotone. Qed.
Print Assumptions C14_height_monotone.

Theorem C14_height_exact : forall progs sched, let y := runS (init progs) sched in
  sl_level (sh y) = fold_right Nat.max 0%nat (map lvl (skipn 2 (heap (sh y)))).
Proof. exact height_exact. Qed.
Print Assumptions C14_height_exact.
