(** Generic interleaving runner.  A machine has a shared state, per-thread local states with a
    program counter, and atomic segments: [begin] runs an operation from its call up to its first
    yield point (or to completion), [step] runs from one yield point to the next.  A schedule is a
    list of thread ids; an entry naming a finished or blocked thread is a stutter step. *)
From Coq Require Import List Arith ZArith Lia.
Import ListNotations.

Section Sched.
Variables shared local pers op result : Type.
(** [pers] is per-thread persistent (ghost) state, e.g. the handles a thread holds *)
Variable begin : nat -> op -> pers -> shared -> shared * pers * (local + result).
Variable step : nat -> local -> pers -> shared -> shared * pers * (local + result).
(** a thread parked at [local] cannot be resumed (e.g. it waits for a mutex) *)
Variable blocked : local -> shared -> bool.
Variable blocked_begin : op -> shared -> bool.

Record thread := mkThread { todo : list op; cur : option local; pers_of : pers; done : list result }.
Record sys := mkSys { sh : shared; ths : list thread }.

Fixpoint upd_th (i : nat) (t : thread) (l : list thread) : list thread :=
  match l, i with
  | [], _ => []
  | _ :: r, O => t :: r
  | x :: r, S j => x :: upd_th j t r
  end.

Definition finish_seg (t : thread) (rest : list op) (p : pers) (r : local + result) : thread :=
  match r with
  | inl l => mkThread rest (Some l) p (done t)
  | inr res => mkThread rest None p (done t ++ [res])
  end.

Definition step_at (y : sys) (i : nat) : sys :=
  match nth_error (ths y) i with
  | None => y
  | Some t =>
    match cur t with
    | Some l =>
      if blocked l (sh y) then y
      else let '(s', p, r) := step i l (pers_of t) (sh y) in mkSys s' (upd_th i (finish_seg t (todo t) p r) (ths y))
    | None =>
      match todo t with
      | [] => y
      | o :: rest =>
        if blocked_begin o (sh y) then y
        else let '(s', p, r) := begin i o (pers_of t) (sh y) in mkSys s' (upd_th i (finish_seg t rest p r) (ths y))
      end
    end
  end.

Definition run (y : sys) (sched : list nat) : sys := fold_left step_at sched y.

Definition init_sys (s : shared) (progs : list (list op * pers)) : sys :=
  mkSys s (map (fun p => mkThread (fst p) None (snd p) []) progs).

Definition th_finished (t : thread) : bool :=
  match cur t, todo t with None, [] => true | _, _ => false end.
Definition quiescent (y : sys) : bool := forallb th_finished (ths y).

Lemma Inv_run (Inv : sys -> Prop) :
  (forall y i, Inv y -> Inv (step_at y i)) ->
  forall sched y, Inv y -> Inv (run y sched).
Proof.
  intros Hstep sched. induction sched as [|i r IH]; intros y Hy; cbn [run fold_left]; [exact Hy|].
  apply IH. apply Hstep. exact Hy.
Qed.

Lemma nth_upd_same i t l : i < length l -> nth_error (upd_th i t l) i = Some t.
Proof.
  revert i. induction l as [|x r IH]; intros [|j] H; cbn in *; try lia; [reflexivity|].
  apply IH. lia.
Qed.

Lemma nth_upd_other i j t l : i <> j -> nth_error (upd_th i t l) j = nth_error l j.
Proof.
  revert i j. induction l as [|x r IH]; intros [|i] [|j] H; cbn; try reflexivity; try lia.
  apply IH. lia.
Qed.

Lemma length_upd i t l : length (upd_th i t l) = length l.
Proof. revert i. induction l as [|x r IH]; intros [|i]; cbn; auto. Qed.

(** sums over threads, for invariants of the form  Σ_t f(t) = g(shared) *)
Fixpoint sumZ (f : thread -> Z) (l : list thread) : Z :=
  match l with [] => 0%Z | t :: r => (f t + sumZ f r)%Z end.

Lemma sumZ_upd f i t t' l : nth_error l i = Some t ->
  sumZ f (upd_th i t' l) = (sumZ f l - f t + f t')%Z.
Proof.
  revert i. induction l as [|x r IH]; intros [|i] H; cbn in *; try discriminate.
  - inversion H; subst. lia.
  - rewrite (IH i H). lia.
Qed.

End Sched.

Arguments mkThread {local pers op result}.
Arguments todo {local pers op result}.
Arguments cur {local pers op result}.
Arguments pers_of {local pers op result}.
Arguments done {local pers op result}.
Arguments mkSys {shared local pers op result}.
Arguments sh {shared local pers op result}.
Arguments ths {shared local pers op result}.
Arguments upd_th {local pers op result}.
Arguments sumZ {local pers op result}.
