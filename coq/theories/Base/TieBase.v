(** Shared helpers for correspondence case files. *)
From NV Require Import Base.Bytes.
Open Scope N_scope.

Fixpoint mismatches_from {A} (f : A -> bool) (i : nat) (l : list A) : list nat :=
  match l with
  | [] => []
  | x :: r => if f x then mismatches_from f (S i) r else i :: mismatches_from f (S i) r
  end.
Definition mismatches {A} (f : A -> bool) (l : list A) : list nat := mismatches_from f 0 l.

Definition optN_eqb (a b : option N) : bool :=
  match a, b with Some x, Some y => x =? y | None, None => true | _, _ => false end.
Definition listN_eqb := list_eqb N.eqb.
Definition listZ_eqb := list_eqb Z.eqb.
Definition bytes_list_eqb := list_eqb (list_eqb N.eqb).
Definition comparison_code (c : comparison) : Z :=
  match c with Lt => (-1)%Z | Eq => 0%Z | Gt => 1%Z end.
