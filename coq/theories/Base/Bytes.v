(** Byte strings, fixed-width integer encodings (big/little endian). *)
From Coq Require Export List NArith ZArith Lia Bool.
From Coq Require Import ZifyN ZifyNat ZifyBool.
Export ListNotations.
Open Scope N_scope.

Notation byte := N (only parsing).
Notation bytes := (list N) (only parsing).

Definition is_byte (b : N) : Prop := b < 256.
Definition is_bytes (l : list N) : Prop := Forall is_byte l.

Definition lenN {A} (l : list A) : N := N.of_nat (length l).

(** big-endian 32 / 16 bit, little-endian 16 bit; the value is taken modulo the width
    exactly as the Go conversions [uint32(l)], [uint16(l)] do. *)
Definition be32 (n : N) : list N :=
  [ (n / 16777216) mod 256; (n / 65536) mod 256; (n / 256) mod 256; n mod 256 ].
Definition be16 (n : N) : list N := [ (n / 256) mod 256; n mod 256 ].
Definition le16 (n : N) : list N := [ n mod 256; (n / 256) mod 256 ].

Definition be_val (l : list N) : N := fold_left (fun acc b => acc * 256 + b) l 0.
Definition le16_val (l : list N) : N :=
  match l with a :: b :: _ => a + 256 * b | _ => 0 end.

(** run-length expansion used by the correspondence cases to keep huge items small on disk *)
Fixpoint expand (l : list (N * N)) : list N :=
  match l with
  | [] => []
  | (n, b) :: r => repeat b (N.to_nat n) ++ expand r
  end.

Fixpoint list_eqb {A} (eqb : A -> A -> bool) (a b : list A) : bool :=
  match a, b with
  | [], [] => true
  | x :: a', y :: b' => eqb x y && list_eqb eqb a' b'
  | _, _ => false
  end.

Definition bytes_eqb := list_eqb N.eqb.
