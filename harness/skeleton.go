package main

import (
	"fmt"
	"go/ast"
	"go/parser"
	"go/token"
	"os"
	"path/filepath"
	"sort"
	"strings"
)

// The step machines assume "one model step per atomic access, in this control structure". This
// command extracts, from the Go source of the modelled lock-free functions, the skeleton that
// assumption is about: control statements, yield points, and calls of the atomic primitives and of the
// other modelled functions, in source order. Names of locals, comments, formatting and the non-atomic
// expressions are not part of it. The driver compares it with the skeleton the models were validated
// against (lib/skeleton/*.txt): a deviation means the model's granularity is no longer known to
// match the code (a CAS replaced by a load and a store has no yield point between them, so no schedule
// of the deterministic scheduler can tell the difference).

var skelFuncs = map[string][]string{
	"skiplist/skiplist.go":       {"Skiplist.findPath", "Skiplist.helpDelete", "Skiplist.Insert4", "Skiplist.softDelete", "Skiplist.deleteNode", "Skiplist.NewLevel", "Skiplist.Delete", "Skiplist.Insert3"},
	"skiplist/iterator.go":       {"Iterator.SeekFirst", "Iterator.Seek", "Iterator.SeekWithCmp", "Iterator.Next", "Iterator.Refresh", "Iterator.Valid"},
	"skiplist/access_barrier.go": {"AccessBarrier.Acquire", "AccessBarrier.Release", "AccessBarrier.FlushSession", "AccessBarrier.doCleanup", "AccessBarrier.hasReadySession"},
	"skiplist/node_amd64.go":     {"Node.getNext", "Node.dcasNext", "Node.setNext"},
	"skiplist/builder.go":        {"Segment.Add", "Builder.Assemble"},
	"skiplist/stats.go":          {"Stats.Merge", "Stats.AddInt64", "Stats.AddUint64"},
	"nitro.go":                   {"Snapshot.Open", "Snapshot.Close", "Nitro.GC", "Nitro.collectDead", "Writer.DeleteNode", "Writer.Delete2", "Writer.Put2", "Nitro.collectionWorker", "Nitro.freeWorker", "Nitro.newBSDestructor"},
}

// calls that matter: atomic primitives, the modelled functions, channel-free blocking primitives
var skelCalls = map[string]bool{
	"getNext": true, "dcasNext": true, "setNext": true, "helpDelete": true, "findPath": true, "softDelete": true,
	"deleteNode": true, "DeleteNode": true, "DeleteNode2": true, "Insert2": true, "Insert3": true, "Insert4": true, "NewLevel": true,
	"Acquire": true, "Release": true, "FlushSession": true, "doCleanup": true, "hasReadySession": true,
	"Seek": true, "SeekWithCmp": true, "Refresh": true, "Valid": true, "Close": true, "Open": true, "GC": true, "collectDead": true,
	"AddInt32": true, "AddInt64": true, "AddUint64": true, "AddUint32": true, "LoadInt32": true, "LoadUint32": true, "LoadUint64": true, "LoadPointer": true,
	"StoreUint32": true, "StoreInt32": true, "StorePointer": true, "SwapPointer": true,
	"CompareAndSwapInt32": true, "CompareAndSwapUint32": true, "CompareAndSwapUint64": true, "CompareAndSwapPointer": true,
	"Lock": true, "Unlock": true, "Insert": true, "Delete": true, "SetLink": true, "GetLink": true, "freeNode": true, "FreeNode": true, "freeItem": true,
	"newNode": true, "compare": true, "GetNode": true, "callb": true, "panic": true,
}

type skelWalker struct {
	out []string
}

func (w *skelWalker) emit(f string, a ...interface{}) { w.out = append(w.out, fmt.Sprintf(f, a...)) }

func (w *skelWalker) expr(e ast.Node) {
	if e == nil {
		return
	}
	ast.Inspect(e, func(n ast.Node) bool {
		switch x := n.(type) {
		case *ast.FuncLit:
			w.emit("func{")
			w.stmts(x.Body.List)
			w.emit("}")
			return false
		case *ast.CallExpr:
			name := ""
			switch f := x.Fun.(type) {
			case *ast.Ident:
				name = f.Name
			case *ast.SelectorExpr:
				name = f.Sel.Name
			}
			// arguments first (evaluation order), then the call
			for _, a := range x.Args {
				w.expr(a)
			}
			if sel, ok := x.Fun.(*ast.SelectorExpr); ok {
				w.expr(sel.X)
			}
			if name == "verifYield" && len(x.Args) == 1 {
				if id, ok := x.Args[0].(*ast.Ident); ok {
					w.emit("yield %s", id.Name)
				}
			} else if skelCalls[name] {
				// sync/atomic primitives carry their package: sts.AddInt64 (plain or atomic depending on
				// the receiver's isLocal flag) is not atomic.AddInt64
				if sel, ok := x.Fun.(*ast.SelectorExpr); ok {
					if id, ok := sel.X.(*ast.Ident); ok && id.Name == "atomic" {
						name = "atomic." + name
					}
				}
				w.emit("call %s", name)
			}
			return false
		case *ast.UnaryExpr:
			if x.Op == token.ARROW {
				w.emit("recv")
			}
		}
		return true
	})
}

func (w *skelWalker) stmts(l []ast.Stmt) {
	for _, s := range l {
		w.stmt(s)
	}
}

func (w *skelWalker) stmt(s ast.Stmt) {
	switch x := s.(type) {
	case *ast.BlockStmt:
		w.stmts(x.List)
	case *ast.IfStmt:
		if x.Init != nil {
			w.stmt(x.Init)
		}
		w.expr(x.Cond)
		w.emit("if{")
		w.stmts(x.Body.List)
		if x.Else != nil {
			w.emit("}else{")
			w.stmt(x.Else)
		}
		w.emit("}")
	case *ast.ForStmt:
		if x.Init != nil {
			w.stmt(x.Init)
		}
		w.emit("for{")
		w.expr(x.Cond)
		w.stmts(x.Body.List)
		if x.Post != nil {
			w.stmt(x.Post)
		}
		w.emit("}")
	case *ast.RangeStmt:
		w.expr(x.X)
		w.emit("range{")
		w.stmts(x.Body.List)
		w.emit("}")
	case *ast.SwitchStmt:
		if x.Init != nil {
			w.stmt(x.Init)
		}
		w.expr(x.Tag)
		w.emit("switch{")
		w.stmts(x.Body.List)
		w.emit("}")
	case *ast.SelectStmt:
		w.emit("select{")
		w.stmts(x.Body.List)
		w.emit("}")
	case *ast.CaseClause:
		w.emit("case")
		for _, e := range x.List {
			w.expr(e)
		}
		w.stmts(x.Body)
	case *ast.CommClause:
		w.emit("comm")
		if x.Comm != nil {
			w.stmt(x.Comm)
		}
		w.stmts(x.Body)
	case *ast.LabeledStmt:
		w.emit("label %s", x.Label.Name)
		w.stmt(x.Stmt)
	case *ast.BranchStmt:
		if x.Label != nil {
			w.emit("%s %s", x.Tok, x.Label.Name)
		} else {
			w.emit("%s", x.Tok)
		}
	case *ast.ReturnStmt:
		for _, e := range x.Results {
			w.expr(e)
		}
		w.emit("return")
	case *ast.DeferStmt:
		w.emit("defer{")
		w.expr(x.Call)
		w.emit("}")
	case *ast.GoStmt:
		w.emit("go{")
		w.expr(x.Call)
		w.emit("}")
	case *ast.SendStmt:
		w.expr(x.Value)
		w.emit("send")
	case *ast.AssignStmt:
		for _, e := range x.Rhs {
			w.expr(e)
		}
		for _, e := range x.Lhs {
			w.expr(e)
		}
	case *ast.ExprStmt:
		w.expr(x.X)
	case *ast.IncDecStmt:
		w.expr(x.X)
	case *ast.DeclStmt:
		w.expr(x.Decl)
	default:
		if s != nil {
			w.expr(s)
		}
	}
}

func recvName(fd *ast.FuncDecl) string {
	if fd.Recv == nil || len(fd.Recv.List) == 0 {
		return ""
	}
	t := fd.Recv.List[0].Type
	if st, ok := t.(*ast.StarExpr); ok {
		t = st.X
	}
	if id, ok := t.(*ast.Ident); ok {
		return id.Name
	}
	return ""
}

func skeletonOf(repo string) (map[string]string, error) {
	out := map[string]string{}
	fset := token.NewFileSet()
	for file, funcs := range skelFuncs {
		f, err := parser.ParseFile(fset, filepath.Join(repo, file), nil, 0)
		if err != nil {
			return nil, err
		}
		want := map[string]bool{}
		for _, fn := range funcs {
			want[fn] = true
		}
		for _, d := range f.Decls {
			fd, ok := d.(*ast.FuncDecl)
			if !ok || fd.Body == nil {
				continue
			}
			name := fd.Name.Name
			if r := recvName(fd); r != "" {
				name = r + "." + name
			}
			if !want[name] {
				continue
			}
			w := &skelWalker{}
			w.stmts(fd.Body.List)
			out[file+":"+name] = strings.Join(w.out, "\n") + "\n"
			delete(want, name)
		}
		for fn := range want {
			out[file+":"+fn] = "<function not found>\n"
		}
	}
	return out, nil
}

func init() {
	commands["skeleton"] = func(a runArgs) error {
		sk, err := skeletonOf("/repo")
		if err != nil {
			return err
		}
		var keys []string
		for k := range sk {
			keys = append(keys, k)
		}
		sort.Strings(keys)
		os.MkdirAll(a.out, 0755)
		for _, k := range keys {
			name := strings.NewReplacer("/", "_", ":", "__").Replace(k) + ".txt"
			if err := os.WriteFile(filepath.Join(a.out, name), []byte(sk[k]), 0644); err != nil {
				return err
			}
		}
		fmt.Printf("%d skeletons\n", len(keys))
		return nil
	}
}
