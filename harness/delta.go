package main

import (
	"encoding/binary"
	"fmt"
	"math/rand"
	"os"
	"path/filepath"
	"runtime"
	"sort"
	"strconv"
	"strings"
	"sync"
	"time"

	"github.com/couchbase/nitro"
	"github.com/couchbase/nitro/skiplist"
)

// C05 with delta interleaving on a moving store: StoreToDisk (one visitor goroutine) is paused after
// every item it writes and a segment of generated operations runs — including the release of the
// stored snapshot, deletes, new snapshots, GC passes with drained collection workers, which in delta
// mode write the versions the snapshot can see to the delta files before unlinking them. The data
// shards, the delta files and the restored content are compared with Mvcc/Delta.v.
// Cases are regenerated from their seed on replay.
func rateOf(in *mvInput) int {
	if in.Rate > 0 {
		return in.Rate
	}
	return 10000
}

func runDelta(in *mvInput, r *rand.Rand, n int, sink *CaseSink) {
	// a quarter of the plain runs use StoreToDisk WITHOUT delta interleaving: the backup then holds the
	// snapshot open to the end (the visit of an open snapshot on a moving store, C10)
	nonDelta := !in.Fine && r.Intn(4) == 0
	in.Delta = !nonDelta
	e := mvGenerate(r, in, n, false)
	g := &mvGen{r: r, e: e, nkeys: 12}
	// several epochs over a dozen keys so that versions pile up and the range split yields shards
	for ep := 0; ep < 2; ep++ {
		for i := 0; i < 14; i++ {
			k := r.Intn(12)
			if r.Intn(4) == 0 {
				g.do(mvOp{Op: "del", W: 0, Bs: b2i(g.item(k))})
			} else {
				g.do(mvOp{Op: "put", W: 0, Bs: b2i(g.item(k))})
			}
		}
		g.do(mvOp{Op: "snap"})
	}
	os_ := g.openSnaps()
	sn := os_[r.Intn(len(os_))]
	if r.Intn(2) == 0 {
		sn = os_[len(os_)-1]
	}
	in.Sn = int(sn)
	e.quiesce()
	want := e.ref.snapItm[sn]
	snap := e.snaps[sn]
	pre := len(e.coqOps)
	preOps := cList(e.coqOps[:pre])
	tmp, _ := os.MkdirTemp("", "vh-dl-")
	defer os.RemoveAll(tmp)
	dir := filepath.Join(tmp, "b")
	shards := runtime.NumCPU()
	st := e.db.VerifStore()
	tok := st.GetAccesBarrier().Acquire()
	var pivots []string
	for _, p := range st.GetRangeSplitItems(shards) {
		itm := (*nitro.Item)(p)
		pivots = append(pivots, fmt.Sprintf("(%s, %d)", cBytes(itm.Bytes()), itm.VerifBornSn()))
	}
	st.GetAccesBarrier().Release(tok)
	// StoreToDisk consumes one reference; the handles the history holds stay until a segment closes them
	seg0 := "[]"
	if nonDelta {
		// the reference is held until StoreToDisk returns: part of the modelled history, and the
		// generator must not close the snapshot's last handle under the backup
		a0 := len(e.coqOps)
		g.do(mvOp{Op: "open", Sn: int(sn)})
		seg0 = cList(e.coqOps[a0:])
		g.protect = sn
	} else {
		snap.Open()
	}
	var segs, outs []string
	changed := 0
	var hmu sync.Mutex
	prevHook := nitro.VerifYieldHook
	e.liveIter = true
	var segment func(record bool)
	nitro.VerifYieldHook = func(p int) {
		if prevHook != nil {
			prevHook(p)
		}
		if p != nitro.VerifPtStoreItem {
			return
		}
		segment(true)
	}
	if in.Fine {
		// the scan goroutine inside Iterator.Refresh, after it dropped its old session
		busy := false
		skiplist.VerifYieldHook = func(p int) {
			if p != skiplist.VerifPtAcqLoaded || busy {
				return
			}
			buf := make([]byte, 4096)
			if !strings.Contains(string(buf[:runtime.Stack(buf, false)]), "nitro.(*Iterator).Refresh") {
				return
			}
			busy = true
			segment(false)
			busy = false
		}
		defer func() { skiplist.VerifYieldHook = nil }()
	}
	segment = func(record bool) {
		hmu.Lock()
		defer hmu.Unlock()
		if os.Getenv("VERIF_NOSEG") != "" {
			segs = append(segs, "[]")
			outs = append(outs, "[]")
			return
		}
		a := len(e.coqOps)
		before := fmt.Sprint(e.physical())
		k := r.Intn(5)
		for i := 0; i < k; i++ {
			m := len(g.ops)
			g.step(true)
			// collection runs asynchronously in the implementation: wait for it after every operation
			// that can hand garbage to the workers, so that the store the scan continues on is determined
			for _, o := range g.ops[m:] {
				if o.Op == "close" || o.Op == "gc" {
					g.do(mvOp{Op: "drain"})
					break
				}
			}
		}
		// aim at the snapshot being stored: release it, delete what it sees, collect
		if r.Intn(2) == 0 {
			for e.ref.snapRef[sn] > 0 && !(nonDelta && e.ref.snapRef[sn] == 1) {
				g.do(mvOp{Op: "close", Sn: int(sn)})
			}
			if r.Intn(3) > 0 {
				// collection is in snapshot order: release the older snapshots too
				for _, o := range g.openSnaps() {
					for e.ref.snapRef[o] > 0 && !(nonDelta && o == sn && e.ref.snapRef[o] == 1) {
						g.do(mvOp{Op: "close", Sn: int(o)})
					}
				}
			}
			for i := 0; i < 1+r.Intn(3) && len(want) > 0; i++ {
				g.do(mvOp{Op: "del", W: 0, Bs: b2i(want[r.Intn(len(want))])})
			}
			g.do(mvOp{Op: "snap"})
			g.do(mvOp{Op: "close", Sn: int(e.ref.currSn - 1)})
			g.do(mvOp{Op: "gc"})
			g.do(mvOp{Op: "drain"})
		}
		if fmt.Sprint(e.physical()) != before {
			changed++
		}
		if record {
			segs = append(segs, cList(e.coqOps[a:]))
			outs = append(outs, cList(e.coqObs[a:]))
		}
	}
	serr := e.db.StoreToDisk(dir, snap, 1, nil)
	if nonDelta {
		e.ref.snapRef[sn]-- // StoreToDisk has given its reference back
		g.protect = 0
	}
	nitro.VerifYieldHook = prevHook
	e.liveIter = false
	bad, sig := "", ""
	if serr != nil {
		bad, sig = fmt.Sprintf("StoreToDisk failed without any fault: %v", serr), "c05-store-error"
	}
	// the files are read back through an instance with Go-managed memory (a reader of the instance
	// under test would take the items from its allocator)
	rdb := nitro.New()
	defer rdb.Close()
	readItems := func(path string) [][]byte {
		items, _, _, _ := c19ReadAll(rdb, path, 1)
		return items
	}
	var shardItems []string
	var data [][]byte
	for k := 0; k < shards; k++ {
		items := readItems(filepath.Join(dir, "data", "shard-"+strconv.Itoa(k)))
		shardItems = append(shardItems, coqItems(items))
		data = append(data, items...)
	}
	var delta [][]byte
	for k := 0; ; k++ {
		p := filepath.Join(dir, "delta", "shard-"+strconv.Itoa(k))
		if _, err := os.Stat(p); err != nil {
			break
		}
		delta = append(delta, readItems(p)...)
	}
	coq := fmt.Sprintf("CDelta %d %s %d %s %s %s %s %s %s %s", in.Cmp, preOps, sn, cZ(int64(rateOf(in))), cList(pivots), seg0, cList(segs), cList(shardItems), coqItems(delta), cList(outs))
	// oracle 1: data ∪ delta = the snapshot, data strictly increasing
	key := e.ref.key
	have := map[string]bool{}
	wantSet := map[string]bool{}
	for _, it := range want {
		wantSet[string(it)] = true
	}
	for i, it := range data {
		have[string(it)] = true
		if i > 0 && !e.ref.less(data[i-1], it) && bad == "" {
			bad, sig = fmt.Sprintf("data shards are not strictly increasing: %q then %q", data[i-1], it), "c05-delta-order"
		}
	}
	for _, it := range delta {
		have[string(it)] = true
	}
	for _, it := range append(append([][]byte(nil), data...), delta...) {
		if !wantSet[string(it)] && bad == "" {
			bad, sig = fmt.Sprintf("backup of snapshot %d contains %q which the snapshot does not hold", sn, it), "c05-delta-extra"
		}
	}
	for _, it := range want {
		if !have[string(it)] && bad == "" {
			bad, sig = fmt.Sprintf("item %q of snapshot %d is neither in a data shard nor in a delta file (%d data items, %d delta items)", it, sn, len(data), len(delta)), "c05-delta-missing"
		}
	}
	_ = key
	// oracle 2: restore
	in2 := &mvInput{Mode: "mvcc", Cmp: in.Cmp, MM: in.MM, Delta: in.Delta}
	e2 := newExec(in2)
	snap2, lerr := e2.db.LoadFromDisk(dir, []int{1, 2, 8}[len(segs)%3], nil)
	if lerr != nil {
		if bad == "" {
			bad, sig = fmt.Sprintf("LoadFromDisk of an undamaged delta backup failed: %v", lerr), "c05-load-error"
		}
	} else {
		var loaded [][]byte
		it := snap2.NewIterator()
		for it.SeekFirst(); it.Valid(); it.Next() {
			loaded = append(loaded, append([]byte(nil), it.Get()...))
		}
		it.Close()
		if (!sameItems(loaded, want) || int(snap2.Count()) != len(want)) && bad == "" {
			bad, sig = fmt.Sprintf("restored snapshot holds %d items (Count %d); the stored snapshot %d held %d: got %q want %q (data %d, delta %d)", len(loaded), snap2.Count(), sn, len(want), loaded, want, len(data), len(delta)), "c05-delta-roundtrip"
		}
		// a collection worker exists only once the instance has a writer
		e2.apply(mvOp{Op: "neww"})
		snap2.Close()
	}
	// oracle 3 (C11): every single-bit damage of the first item of every non-empty delta file must make
	// LoadFromDisk (in a child: a panic in a loader goroutine cannot be recovered) fail, not crash and
	// not succeed with other content
	damaged := 0
	for k := 0; bad == "" && damaged < 2; k++ {
		p := filepath.Join(dir, "delta", "shard-"+strconv.Itoa(k))
		orig, err := os.ReadFile(p)
		if err != nil {
			break
		}
		if len(orig) <= 8 {
			continue
		}
		if first := int(binary.BigEndian.Uint32(orig[0:4])); first < 3 {
			continue // offsets 4..6 must lie inside the first item's payload
		}
		// bytes 0..3 length prefix, then the payload: for KV items its first two bytes are the key length
		for _, off := range []int{4, 5, 6} {
			if off >= len(orig)-4 {
				continue
			}
			bit := byte(1) << uint(r.Intn(8))
			mod := append([]byte(nil), orig...)
			mod[off] ^= bit
			os.WriteFile(p, mod, 0644)
			damaged++
			t0 := time.Now()
			res, fail := runChild(20*time.Second, "child-load", "-dir", dir, "-cmp", fmt.Sprint(in.Cmp), "-delta", fmt.Sprint(in.Delta), "-conc", "2")
			if os.Getenv("VERIF_DEBUG") != "" {
				fmt.Fprintf(os.Stderr, "child-load k=%d off=%d bit=%#x: %v ok=%v err=%q fail=%q\n", k, off, bit, time.Since(t0), res.Ok, res.Err, fail)
				if time.Since(t0) > 300*time.Millisecond {
					copyDir(dir, fmt.Sprintf("/tmp/d15/slow-%d", time.Now().UnixNano()))
				}
			}
			switch {
			case fail == "hang":
				bad, sig = fmt.Sprintf("LoadFromDisk did not return within 20s on a backup with bit %#x of delta/shard-%d[%d] flipped", bit, k, off), "c11-hang"
			case fail != "":
				bad, sig = fmt.Sprintf("LoadFromDisk crashed on a backup with bit %#x of delta/shard-%d[%d] flipped (the payload of a delta item): %s", bit, k, off, fail), "c11-panic"
			case res.Ok && fmt.Sprint(res.Items) != fmt.Sprint(hexItems(want)):
				bad, sig = fmt.Sprintf("LoadFromDisk returned success with different content on a backup with bit %#x of delta/shard-%d[%d] flipped", bit, k, off), "c11-silent"
			}
			if bad != "" {
				break
			}
		}
		os.WriteFile(p, orig, 0644)
	}
	rec := &mvInput{Mode: "delta", Cmp: in.Cmp, MM: in.MM, GenSeed: in.GenSeed, GenN: in.GenN, Rate: in.Rate, Fine: in.Fine}
	idx := sink.Add(coq, rec, fmt.Sprintf("delta%v-cmp%d-mm%v", in.Delta, in.Cmp, in.MM), (len(delta) >= 1 || nonDelta) && changed >= 2 && len(want) >= 3)
	if bad != "" {
		sink.Fail(idx, bad, sig, rec)
	}
	e.finish()
	e2.finish()
	for i, x := range []*mvExec{e, e2} {
		if len(x.bad) > 0 {
			sink.Fail(idx, []string{"on the instance that was backed up: ", "on the restored instance: "}[i]+x.bad[0], x.sig, rec)
		}
	}
	_ = sort.Ints
}
