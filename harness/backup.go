package main

import (
	"fmt"
	"math/rand"
	"os"
	"path/filepath"
	"runtime"
	"sort"
	"strconv"

	"github.com/couchbase/nitro"
)

// C05 / C07: backup round trips. A generated history, StoreToDisk of any open snapshot, LoadFromDisk
// into a fresh instance with the same configuration, then a further history on the restored instance.

func runBackup(in *mvInput, r *rand.Rand, n int, sink *CaseSink, replay bool) {
	var e *mvExec
	if replay {
		e = mvReplay(in)
	} else {
		e = mvGenerate(r, in, n, false)
		g := &mvGen{r: r, e: e, nkeys: 10, ops: in.Ops}
		// enough items (over several epochs, so that versions pile up) for the range split to
		// produce several shards
		g.nkeys = 26
		for ep := 0; ep < 2; ep++ {
			for i := 0; i < 30; i++ {
				k := r.Intn(26)
				if r.Intn(4) == 0 {
					g.do(mvOp{Op: "del", W: 0, Bs: b2i(g.item(k))})
				} else {
					g.do(mvOp{Op: "put", W: 0, Bs: b2i(g.item(k))})
				}
			}
			g.do(mvOp{Op: "snap"})
		}
		in.Ops = g.ops
		os_ := g.openSnaps()
		in.Sn = int(os_[r.Intn(len(os_))])
		if r.Intn(2) == 0 {
			in.Sn = int(os_[0]) // an older snapshot: newer versions are physically present
		}
		in.Conc = []int{1, 2, 8}[r.Intn(3)]
	}
	e.quiesce()
	sn := uint32(in.Sn)
	want := e.ref.snapItm[sn]
	snap := e.snaps[sn]
	tmp, _ := os.MkdirTemp("", "vh-bk-")
	defer os.RemoveAll(tmp)
	dir := filepath.Join(tmp, "b")
	// the pivots StoreToDisk's Visitor is going to use
	shards := runtime.NumCPU()
	st := e.db.VerifStore()
	tok := st.GetAccesBarrier().Acquire()
	var pivots []string
	for _, p := range st.GetRangeSplitItems(shards) {
		itm := (*nitro.Item)(p)
		pivots = append(pivots, fmt.Sprintf("(%s, %d)", cBytes(itm.Bytes()), itm.VerifBornSn()))
	}
	st.GetAccesBarrier().Release(tok)
	snap.Open()
	bad, sig := "", ""
	if err := e.db.StoreToDisk(dir, snap, in.Conc, nil); err != nil {
		bad, sig = fmt.Sprintf("StoreToDisk failed without any fault: %v", err), "c05-store-error"
	}
	// files as written
	var files, cks []string
	for k := 0; k < shards; k++ {
		bs, _ := os.ReadFile(filepath.Join(dir, "data", "shard-"+strconv.Itoa(k)))
		files = append(files, cRLE(bs))
	}
	{
		c := presCks(filepath.Join(dir, "data", "checksums.json"))
		if len(c) > 6 {
			cks = append(cks, c[5:len(c)-1]) // strip "(POk " and ")"
		}
	}
	// restore into a fresh instance with the same configuration
	in2 := &mvInput{Mode: "mvcc", Cmp: in.Cmp, MM: in.MM, Delta: in.Delta}
	e2 := newExec(in2)
	snap2, lerr := e2.db.LoadFromDisk(dir, []int{1, 2, 8}[len(in.Ops)%3], nil)
	var loaded [][]byte
	if lerr != nil {
		if bad == "" {
			bad, sig = fmt.Sprintf("LoadFromDisk of an undamaged backup failed: %v", lerr), "c05-load-error"
		}
	} else {
		it := snap2.NewIterator()
		for it.SeekFirst(); it.Valid(); it.Next() {
			loaded = append(loaded, append([]byte(nil), it.Get()...))
			n := it.GetNode()
			e2.nodeID[n] = len(e2.nodes)
			e2.nodes = append(e2.nodes, n)
		}
		it.Close()
		if (!sameItems(loaded, want) || int(snap2.Count()) != len(want)) && bad == "" {
			bad, sig = fmt.Sprintf("restored snapshot holds %d items (Count %d); the stored snapshot %d holds %d: got %q want %q", len(loaded), snap2.Count(), sn, len(want), loaded, want), "c05-roundtrip"
		}
	}
	ckList := "[]"
	if len(cks) == 1 {
		ckList = cks[0]
	}
	coq := fmt.Sprintf("CBackup %d %s %d %s %d %s %s %s", in.Cmp, e.coqOpsList(), sn, cList(pivots), shards, cList(files), ckList, coqItems(loaded))
	multi := false
	seen := map[string]int{}
	for _, v := range e.ref.vers {
		if !v.gone {
			seen[e.ref.key(v.item)]++
			if seen[e.ref.key(v.item)] > 1 {
				multi = true
			}
		}
	}
	idx := sink.Add(coq, in, fmt.Sprintf("backup-mm%v-cmp%d", in.MM, in.Cmp), multi && len(want) >= 2)
	if bad != "" {
		sink.Fail(idx, bad, sig, in)
	}
	// ---- continue on the restored instance --------------------------------------------------
	if lerr == nil && !replay && bad == "" {
		r2 := e2.ref
		for i, it := range loaded {
			r2.vers = append(r2.vers, &refVer{item: it, born: 0})
			r2.live[r2.key(it)] = i
		}
		r2.count = len(loaded)
		r2.currSn = 2
		r2.snapRef[1] = 1
		r2.snapItm[1] = loaded
		r2.snapCnt[1] = len(loaded)
		e2.snaps[1] = snap2
		e2.coqOps = append(e2.coqOps, "NewSnapshot")
		e2.coqObs = append(e2.coqObs, fmt.Sprintf("OSnap 1 %s", cZ(snap2.Count())))
		g2 := &mvGen{r: r, e: e2, nkeys: 10}
		g2.do(mvOp{Op: "neww"})
		for i := 0; i < 15+r.Intn(25); i++ {
			g2.step(false)
		}
		for _, s := range g2.openSnaps() {
			g2.do(mvOp{Op: "scan", Sn: int(s)})
		}
		coq2 := fmt.Sprintf("CRestored %d %s %s %s", in.Cmp, coqItems(loaded), e2.coqOpsList(), e2.coqObsList())
		idx2 := sink.Add(coq2, map[string]interface{}{"restored_from": in, "ops": g2.ops}, fmt.Sprintf("restored-mm%v-cmp%d", in.MM, in.Cmp), len(loaded) >= 2)
		if len(e2.bad) > 0 {
			sink.Fail(idx2, "on an instance populated by LoadFromDisk: "+e2.bad[0], e2.sig, in)
			e2.bad = nil
		}
	}
	e.finish()
	if bad == "" {
		// a wrongly restored instance is not driven any further (its reference state is meaningless)
		e2.finish()
	}
	for _, x := range []*mvExec{e, e2} {
		if len(x.bad) > 0 {
			sink.Fail(idx, x.bad[0], x.sig, in)
		}
	}
	_ = sort.Ints
}
