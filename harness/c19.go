package main

import (
	"bytes"
	"encoding/binary"
	"encoding/json"
	"fmt"
	"hash/crc32"
	"io"
	"math/rand"
	"os"
	"path/filepath"

	"github.com/couchbase/nitro"
)

// RLE JSON form of a byte string
type RB [][2]int

func toRB(bs []byte) RB {
	var r RB
	for i := 0; i < len(bs); {
		j := i
		for j < len(bs) && bs[j] == bs[i] {
			j++
		}
		r = append(r, [2]int{j - i, int(bs[i])})
		i = j
	}
	return r
}
func (r RB) bytes() []byte {
	var out []byte
	for _, p := range r {
		for k := 0; k < p[0]; k++ {
			out = append(out, byte(p[1]))
		}
	}
	return out
}

type c19Input struct {
	Kind   string `json:"kind"` // roundtrip | read | kv | cmpkv | cmpbytes | crc
	Items  []RB   `json:"items,omitempty"`
	Ver    int    `json:"ver,omitempty"`
	Stream RB     `json:"stream,omitempty"`
	A      RB     `json:"a,omitempty"`
	B      RB     `json:"b,omitempty"`
	Block  int    `json:"block,omitempty"` // DiskBlockSize for this case (0 = the package default): buffer boundaries inside records
}

func errCode(err error) uint64 {
	switch err {
	case nil:
		return 0
	case io.EOF:
		return 1
	case io.ErrUnexpectedEOF:
		return 2
	}
	return 3
}

func genBytes(r *rand.Rand, n int) []byte {
	bs := make([]byte, n)
	mode := r.Intn(5)
	for i := range bs {
		switch mode {
		case 0:
			bs[i] = 0
		case 1:
			bs[i] = 0xff
		case 2:
			bs[i] = byte(r.Intn(3)) // 0,1,2: look like prefixes
		default:
			bs[i] = byte(r.Intn(256))
		}
	}
	if n > 400 {
		// long items: runs, so that the RLE stays small
		b := byte(r.Intn(256))
		for i := range bs {
			if r.Intn(5000) == 0 {
				b = byte(r.Intn(256))
			}
			bs[i] = b
		}
	}
	return bs
}

var c19Lens = []int{1, 1, 2, 3, 4, 5, 6, 255, 256, 257}
var c19BigLens = []int{65535, 65536, 65537, 70000}

// every third item of a run takes the next length of a sweep 1, 2, 3, ... (wrapping at 1500): a
// coincidence with some small buffer size (a scratch buffer, a block boundary) is met at every length
var c19Sweep int

func genItemLen(r *rand.Rand, allowBig bool) int {
	x := r.Intn(100)
	if r.Intn(3) == 0 {
		c19Sweep = c19Sweep%1500 + 1
		return c19Sweep
	}
	switch {
	case x < 35:
		return c19Lens[r.Intn(len(c19Lens))]
	case x < 37 && allowBig:
		return c19BigLens[r.Intn(len(c19BigLens))]
	default:
		return 1 + r.Intn(40)
	}
}

func c19ReadAll(db *nitro.Nitro, path string, ver int) (items [][]byte, ck uint32, end uint64, perr interface{}) {
	defer func() {
		if e := recover(); e != nil {
			perr = e
		}
	}()
	rd := db.VerifNewFileReader(ver)
	if err := rd.Open(path); err != nil {
		return nil, 0, 3, nil
	}
	defer rd.Close()
	for {
		itm, err := rd.ReadItem()
		if err != nil {
			end = errCode(err)
			break
		}
		if itm == nil {
			end = 0
			break
		}
		items = append(items, append([]byte(nil), itm.Bytes()...))
	}
	return items, rd.Checksum(), end, nil
}

func c19Run(db *nitro.Nitro, tmp string, in *c19Input, sink *CaseSink) {
	path := filepath.Join(tmp, "f")
	os.Remove(path)
	if in.Block > 0 {
		defer func(old int) { nitro.DiskBlockSize = old }(nitro.DiskBlockSize)
		nitro.DiskBlockSize = in.Block
	}
	switch in.Kind {
	case "roundtrip":
		var items [][]byte
		for _, it := range in.Items {
			items = append(items, it.bytes())
		}
		w := db.VerifNewFileWriter()
		if err := w.Open(path); err != nil {
			panic(err)
		}
		for _, bs := range items {
			if err := w.WriteItem(db.VerifNewItem(bs)); err != nil {
				panic(err)
			}
		}
		wck := w.Checksum()
		if err := w.Close(); err != nil {
			panic(err)
		}
		file, _ := os.ReadFile(path)
		ritems, rck, end, perr := c19ReadAll(db, path, 1)
		coq := fmt.Sprintf("CRoundtrip %s %s %d %s %d %d", cRLEs(items), cRLE(file), wck, cRLEs(ritems), rck, end)
		big := false
		for _, it := range items {
			if len(it) >= 255 {
				big = true
			}
		}
		idx := sink.Add(coq, in, "roundtrip", len(items) >= 2 || big)
		// oracle: the property itself, on the implementation alone
		ok := perr == nil && end == 0 && rck == wck && len(ritems) == len(items)
		if ok {
			for i := range items {
				if !bytes.Equal(items[i], ritems[i]) {
					ok = false
				}
			}
		}
		if !ok {
			sink.Fail(idx, fmt.Sprintf("written items are not read back exactly (end=%d wck=%d rck=%d n=%d/%d panic=%v)", end, wck, rck, len(ritems), len(items), perr), "c19-roundtrip", in)
		}
	case "read":
		stream := in.Stream.bytes()
		os.WriteFile(path, stream, 0644)
		ritems, rck, end, perr := c19ReadAll(db, path, in.Ver)
		coq := fmt.Sprintf("CRead %d %s %s %d %d", in.Ver, cRLE(stream), cRLEs(ritems), rck, end)
		idx := sink.Add(coq, in, fmt.Sprintf("read-v%d-end%d", in.Ver, end), len(ritems) > 0)
		if perr != nil {
			sink.Fail(idx, fmt.Sprintf("reader panicked: %v", perr), "c19-read-panic", in)
		}
		if len(in.Items) > 0 {
			// a well-formed v0 file: oracle = items read back exactly
			ok := end == 0 && len(ritems) == len(in.Items)
			if ok {
				for i := range in.Items {
					if !bytes.Equal(in.Items[i].bytes(), ritems[i]) {
						ok = false
					}
				}
			}
			if !ok {
				sink.Fail(idx, "v0-framed items are not decoded exactly by a version-0 reader", "c19-v0", in)
			}
		}
	case "kv":
		k, v := in.A.bytes(), in.B.bytes()
		enc := nitro.KVToBytes(k, v)
		k2, v2 := nitro.KVFromBytes(enc)
		coq := fmt.Sprintf("CKV %s %s %s %s %s", cRLE(k), cRLE(v), cRLE(enc), cRLE(k2), cRLE(v2))
		idx := sink.Add(coq, in, "kv", len(k) > 0 && len(v) > 0)
		if !bytes.Equal(k, k2) || !bytes.Equal(v, v2) {
			sink.Fail(idx, "KVFromBytes(KVToBytes(k,v)) != (k,v)", "c19-kv", in)
		}
	case "cmpkv":
		// A,B are already encoded pairs
		a, b := in.A.bytes(), in.B.bytes()
		got, perr := func() (g int, e interface{}) {
			defer func() { e = recover() }()
			return nitro.CompareKV(a, b), nil
		}()
		if perr != nil {
			got = 99
		}
		coq := fmt.Sprintf("CCmpKV %s %s %s", cRLE(a), cRLE(b), cZ(int64(sign(got))))
		idx := sink.Add(coq, in, "cmpkv", true)
		if perr != nil {
			sink.Fail(idx, fmt.Sprintf("CompareKV panicked on well-formed pairs with keys of %d and %d bytes: %v", len(a)-2, len(b)-2, perr), "c19-cmpkv-panic", in)
			return
		}
		ka, _ := nitro.KVFromBytes(a)
		kb, _ := nitro.KVFromBytes(b)
		if sign(got) != sign(bytes.Compare(ka, kb)) {
			sink.Fail(idx, "CompareKV disagrees with bytes.Compare on the keys", "c19-cmpkv", in)
		}
	case "cmpbytes":
		a, b := in.A.bytes(), in.B.bytes()
		coq := fmt.Sprintf("CCmpBytes %s %s %s", cRLE(a), cRLE(b), cZ(int64(sign(bytes.Compare(a, b)))))
		sink.Add(coq, in, "cmpbytes", true)
	case "crc":
		a := in.A.bytes()
		coq := fmt.Sprintf("CCrc %s %d", cRLE(a), crc32.ChecksumIEEE(a))
		sink.Add(coq, in, "crc", len(a) > 0)
	}
}

func sign(x int) int {
	if x < 0 {
		return -1
	}
	if x > 0 {
		return 1
	}
	return 0
}

func c19Gen(r *rand.Rand, i int) *c19Input {
	x := r.Intn(100)
	switch {
	case x < 40:
		n := r.Intn(8)
		in := &c19Input{Kind: "roundtrip", Block: []int{0, 0, 16, 17, 23, 64, 100, 4096}[r.Intn(8)]}
		for k := 0; k < n; k++ {
			in.Items = append(in.Items, toRB(genBytes(r, genItemLen(r, i%10 == 0))))
		}
		return in
	case x < 60:
		// malformed stream: valid file then truncate / flip / garbage
		var buf bytes.Buffer
		ver := 1
		if r.Intn(3) == 0 {
			ver = 0
		}
		n := r.Intn(5)
		for k := 0; k < n; k++ {
			bs := genBytes(r, 1+r.Intn(20))
			if ver == 0 {
				var h [2]byte
				binary.BigEndian.PutUint16(h[:], uint16(len(bs)))
				buf.Write(h[:])
			} else {
				var h [4]byte
				binary.BigEndian.PutUint32(h[:], uint32(len(bs)))
				buf.Write(h[:])
			}
			buf.Write(bs)
		}
		if ver == 0 {
			buf.Write([]byte{0, 0})
		} else {
			buf.Write([]byte{0, 0, 0, 0})
		}
		s := buf.Bytes()
		switch r.Intn(4) {
		case 0:
			s = s[:r.Intn(len(s)+1)]
		case 1:
			if len(s) > 0 {
				p := r.Intn(len(s))
				// keep damaged length prefixes small: never set the two high bytes of a v1 prefix
				s[p] ^= byte(1 << uint(r.Intn(8)))
			}
		case 2:
			s = append(s, genBytes(r, r.Intn(6))...)
		}
		s = clampPrefixes(s, ver)
		return &c19Input{Kind: "read", Ver: ver, Stream: toRB(s), Block: []int{0, 16, 19, 64}[r.Intn(4)]}
	case x < 70:
		// well-formed version-0 file
		in := &c19Input{Kind: "read", Ver: 0, Block: []int{0, 16, 19, 64}[r.Intn(4)]}
		var buf bytes.Buffer
		n := r.Intn(6)
		for k := 0; k < n; k++ {
			l := genItemLen(r, false)
			if r.Intn(20) == 0 {
				l = 65535
			}
			bs := genBytes(r, l)
			in.Items = append(in.Items, toRB(bs))
			var h [2]byte
			binary.BigEndian.PutUint16(h[:], uint16(len(bs)))
			buf.Write(h[:])
			buf.Write(bs)
		}
		buf.Write([]byte{0, 0})
		in.Stream = toRB(buf.Bytes())
		return in
	case x < 80:
		kl := r.Intn(12)
		if r.Intn(15) == 0 {
			kl = []int{255, 256, 65535}[r.Intn(3)]
		}
		return &c19Input{Kind: "kv", A: toRB(genBytes(r, kl)), B: toRB(genBytes(r, r.Intn(12)))}
	case x < 92:
		// pairs with related keys: equal, prefix, differing in one byte
		k := genBytes(r, r.Intn(6))
		if r.Intn(6) == 0 {
			// the largest key lengths the 2-byte prefix can encode
			k = genBytes(r, []int{65533, 65534, 65535}[r.Intn(3)])
		}
		k2 := append([]byte(nil), k...)
		switch r.Intn(4) {
		case 0:
		case 1:
			k2 = append(k2, byte(r.Intn(256)))
		case 2:
			if len(k2) > 0 {
				k2[r.Intn(len(k2))] = byte(r.Intn(256))
			}
		case 3:
			k2 = genBytes(r, r.Intn(6))
		}
		a := nitro.KVToBytes(k, genBytes(r, r.Intn(5)))
		b := nitro.KVToBytes(k2, genBytes(r, r.Intn(5)))
		if r.Intn(2) == 0 {
			a, b = b, a
		}
		if r.Intn(3) == 0 {
			return &c19Input{Kind: "cmpbytes", A: toRB(k), B: toRB(k2)}
		}
		return &c19Input{Kind: "cmpkv", A: toRB(a), B: toRB(b)}
	default:
		return &c19Input{Kind: "crc", A: toRB(genBytes(r, r.Intn(40)))}
	}
}

// clampPrefixes walks a (possibly damaged) stream as the reader would and rewrites any
// length prefix larger than 1 MiB to a small value, so that the implementation is never
// asked to allocate gigabytes (the model has no such limit; both then see the same bytes).
func clampPrefixes(s []byte, ver int) []byte {
	hl := 4
	if ver == 0 {
		return s
	}
	pos := 0
	for pos+hl <= len(s) {
		l := int(binary.BigEndian.Uint32(s[pos:]))
		if l > 1<<20 {
			s[pos], s[pos+1] = 0, 0
			l = int(binary.BigEndian.Uint32(s[pos:]))
		}
		if l == 0 {
			break
		}
		pos += hl + l
	}
	return s
}

func init() {
	commands["c19"] = func(a runArgs) error {
		db := nitro.New()
		tmp, err := os.MkdirTemp("", "vh-c19-")
		if err != nil {
			return err
		}
		defer os.RemoveAll(tmp)
		sink := NewSink(a.out, "C19", "Tie.C19Tie", a.seed)
		sink.meta.Rule = "generated item sequences (lengths incl. 1..6,255..257,65535..70000, every third item from a sweep 1,2,3,..,1500; bytes biased to 0x00/0xFF/prefix-like), damaged and v0 streams, KV pairs with related keys; non-trivial = roundtrip with >=2 items or an item >=255 bytes, read that decodes >=1 item, kv with non-empty key and value, every comparator/crc case; distinct by Coq term"
		if a.replay != "" {
			bs, err := os.ReadFile(a.replay)
			if err != nil {
				return err
			}
			var rp struct {
				Case c19Input `json:"case"`
			}
			if err := json.Unmarshal(bs, &rp); err != nil {
				return err
			}
			c19Run(db, tmp, &rp.Case, sink)
			return sink.Flush()
		}
		r := rand.New(rand.NewSource(a.seed))
		for i := 0; i < a.n; i++ {
			c19Run(db, tmp, c19Gen(r, i), sink)
		}
		return sink.Flush()
	}
}
