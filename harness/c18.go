package main

import (
	"encoding/json"
	"fmt"
	"math/rand"
	"os"
	"sort"
	"sync"
	"unsafe"

	"github.com/couchbase/nitro/skiplist"
)

// C18: bulk builder and merge iterator.

type c18Op struct {
	Op string `json:"op"` // merge: first seek next ; build: ins del look
	K  int    `json:"k,omitempty"`
}

type c18Input struct {
	Kind   string   `json:"kind"` // merge | build
	Lists  [][]int  `json:"lists,omitempty"`
	Script []c18Op  `json:"script,omitempty"`
	Segs   [][]int  `json:"segs,omitempty"` // keys per segment (ascending overall)
	Conc   bool     `json:"conc,omitempty"` // fill segments concurrently
	MM     bool     `json:"mm,omitempty"`
	Sched  int64    `json:"sched,omitempty"` // != 0: concurrent fill under the deterministic scheduler (parks around the load and the update of the shared height), seed of the schedule
}

func c18Merge(in *c18Input, sink *CaseSink) {
	var its []*skiplist.Iterator
	var keep []unsafe.Pointer
	for _, l := range in.Lists {
		sl := skiplist.New()
		buf := sl.MakeBuf()
		for _, k := range l {
			itm := skiplist.NewIntKeyItem(k)
			keep = append(keep, itm)
			sl.Insert(itm, skiplist.CompareInt, buf, &sl.Stats)
		}
		its = append(its, sl.NewIterator(skiplist.CompareInt, buf))
	}
	_ = keep
	mit := skiplist.NewMergeIterator(its)
	var ops, obs []string
	// oracle: reference = sorted multiset union; position tracked as an index
	var all []int
	for _, l := range in.Lists {
		seen := map[int]bool{}
		for _, k := range l {
			if !seen[k] { // a list is a set: duplicate inserts are rejected
				all = append(all, k)
				seen[k] = true
			}
		}
	}
	sort.Ints(all)
	pos := -1
	bad, sig := "", ""
	positioned := false
	panicked := false
	for _, op := range in.Script {
		if panicked {
			break
		}
		func() {
			defer func() {
				if e := recover(); e != nil {
					panicked = true
					obs = append(obs, "None")
					if bad == "" {
						bad, sig = fmt.Sprintf("MergeIterator panicked on %s(%d): %v", op.Op, op.K, e), "c18-merge-panic"
					}
				}
			}()
			switch op.Op {
			case "first":
				ops = append(ops, "MSeekFirst")
				mit.SeekFirst()
				pos = 0
				positioned = true
			case "seek":
				ops = append(ops, "MSeek "+cZ(int64(op.K)))
				mit.Seek(skiplist.NewIntKeyItem(op.K))
				pos = sort.SearchInts(all, op.K)
				positioned = true
			case "next":
				ops = append(ops, "MNext")
				mit.Next()
				pos++
			}
			if mit.Valid() {
				k := skiplist.IntFromItem(mit.Get())
				obs = append(obs, fmt.Sprintf("Some (true, %s)", cZ(int64(k))))
				if positioned && (pos >= len(all) || all[pos] != k) && bad == "" {
					bad, sig = fmt.Sprintf("merge iterator stands on %d, the sorted union has %v at position %d", k, func() interface{} {
						if pos < len(all) {
							return all[pos]
						}
						return "<end>"
					}(), pos), "c18-merge-pos"
				}
			} else {
				obs = append(obs, "Some (false, 0%Z)")
				if positioned && pos < len(all) && bad == "" {
					bad, sig = fmt.Sprintf("merge iterator is exhausted but %d items of the sorted union remain", len(all)-pos), "c18-merge-end"
				}
			}
		}()
	}
	var ls []string
	for _, l := range in.Lists {
		// the list content as a set, ascending
		seen := map[int]bool{}
		var ks []int
		for _, k := range l {
			if !seen[k] {
				ks = append(ks, k)
				seen[k] = true
			}
		}
		sort.Ints(ks)
		var ps []string
		for _, k := range ks {
			ps = append(ps, cZ(int64(k)))
		}
		ls = append(ls, cList(ps))
	}
	coq := fmt.Sprintf("CMerge true %s %s %s", cList(ls), cList(ops), cList(obs))
	reseek := 0
	for i, op := range in.Script {
		if i > 0 && op.Op != "next" {
			reseek++
		}
	}
	idx := sink.Add(coq, in, fmt.Sprintf("merge-%dlists", len(in.Lists)), reseek >= 1 && len(all) >= 3)
	if bad != "" {
		sink.Fail(idx, bad, sig, in)
	}
}

func c18Build(in *c18Input, r *rand.Rand, sink *CaseSink) {
	var arena *Arena
	cfg := skiplist.DefaultConfig()
	if in.MM {
		arena = NewArena()
		cfg.UseMemoryMgmt = true
		cfg.Malloc = arena.Malloc
		cfg.Free = arena.Free
		cfg.BarrierDestructor = func(unsafe.Pointer) {}
	}
	b := skiplist.NewBuilderWithConfig(cfg)
	segs := make([]*skiplist.Segment, len(in.Segs))
	var keep []unsafe.Pointer
	items := make([][]unsafe.Pointer, len(in.Segs))
	for i, s := range in.Segs {
		segs[i] = b.NewSegment()
		for _, k := range s {
			itm := skiplist.NewIntKeyItem(k)
			keep = append(keep, itm)
			items[i] = append(items[i], itm)
		}
	}
	_ = keep
	if in.Conc && in.Sched != 0 && len(segs) > 0 {
		sch := NewSched(len(segs), skiplist.VerifPtLevelLoad, skiplist.VerifPtLevelCas)
		skiplist.VerifYieldHook = sch.Hook
		for i := range segs {
			i := i
			sch.Go(i, func() {
				sch.OpStart(i)
				for _, itm := range items[i] {
					segs[i].Add(itm)
				}
			})
		}
		ok := sch.Run(len(segs), randomChooser(rand.New(rand.NewSource(in.Sched)), 30), 200000)
		if !ok || !sch.AllFinished() {
			sch.Abandon()
		}
		skiplist.VerifYieldHook = nil
	} else if in.Conc {
		var wg sync.WaitGroup
		for i := range segs {
			wg.Add(1)
			go func(i int) {
				defer wg.Done()
				for _, itm := range items[i] {
					segs[i].Add(itm)
				}
			}(i)
		}
		wg.Wait()
	} else {
		for i := range segs {
			for _, itm := range items[i] {
				segs[i].Add(itm)
			}
		}
	}
	sl := b.Assemble(segs...)
	// read back the levels the builder drew
	levelOf := map[int]int{}
	{
		n, _ := sl.HeadNode().VerifNext(0)
		for g := 0; n != sl.TailNode() && n != nil && g < 100000; g++ {
			levelOf[skiplist.IntFromItem(n.Item())] = n.Level()
			n, _ = n.VerifNext(0)
		}
	}
	var segsC []string
	var want []int
	for _, s := range in.Segs {
		var ps []string
		for _, k := range s {
			ps = append(ps, fmt.Sprintf("(%s, %d)", cZ(int64(k)), levelOf[k]))
			want = append(want, k)
		}
		segsC = append(segsC, cList(ps))
	}
	level := sl.VerifLevel()
	var chains []string
	bad, sig := "", ""
	for l := 0; l <= level; l++ {
		var ks []string
		var got []int
		n, _ := sl.HeadNode().VerifNext(l)
		for g := 0; n != sl.TailNode() && n != nil && g < 100000; g++ {
			ks = append(ks, cZ(int64(skiplist.IntFromItem(n.Item()))))
			got = append(got, skiplist.IntFromItem(n.Item()))
			n, _ = n.VerifNext(l)
		}
		chains = append(chains, cList(ks))
		if l == 0 {
			if fmt.Sprint(got) != fmt.Sprint(want) && !(len(got) == 0 && len(want) == 0) && bad == "" {
				bad, sig = fmt.Sprintf("assembled level 0 is %v, the concatenation of the segments is %v", got, want), "c18-concat"
			}
		}
	}
	rep := sl.GetStats()
	if bad == "" {
		bad, sig = skStructure(sl, rep.NodeDistribution[:], rep.SoftDeletes, int64(rep.NodeCount))
	}
	// the height of the assembled list covers every tower (searches and unlink passes start there)
	for k, h := range levelOf {
		if h > level && bad == "" {
			bad, sig = fmt.Sprintf("the assembled list has height %d but the node with key %d has a tower of level %d", level, k, h), "c18-height"
		}
	}
	var counts []string
	for l := 0; l <= 6; l++ {
		counts = append(counts, cZ(rep.NodeDistribution[l]))
	}
	// later operations behave as on an incrementally built list
	buf := sl.MakeBuf()
	ref := map[int]bool{}
	for _, k := range want {
		ref[k] = true
	}
	var ops, res []string
	for _, op := range in.Script {
		itm := skiplist.NewIntKeyItem(op.K)
		keep = append(keep, itm)
		switch op.Op {
		case "ins":
			_, ok := sl.Insert2(itm, skiplist.CompareInt, nil, buf, func() float32 { return 0.9 }, &sl.Stats)
			ops = append(ops, fmt.Sprintf("OInsert %s 0", cZ(int64(op.K))))
			res = append(res, "RBool "+cBool(ok))
			if ok == ref[op.K] && bad == "" {
				bad, sig = fmt.Sprintf("Insert(%d) on the assembled list returned %v, present=%v", op.K, ok, ref[op.K]), "c18-later-ops"
			}
			ref[op.K] = true
		case "del":
			ok := sl.Delete(itm, skiplist.CompareInt, buf, &sl.Stats)
			ops = append(ops, "ODelete "+cZ(int64(op.K)))
			res = append(res, "RBool "+cBool(ok))
			if ok != ref[op.K] && bad == "" {
				bad, sig = fmt.Sprintf("Delete(%d) on the assembled list returned %v, present=%v", op.K, ok, ref[op.K]), "c18-later-ops"
			}
			delete(ref, op.K)
		case "look":
			_, _, ok := sl.Lookup(itm, skiplist.CompareInt, buf, &sl.Stats)
			ops = append(ops, "OLookup "+cZ(int64(op.K)))
			res = append(res, "RBool "+cBool(ok))
			if ok != ref[op.K] && bad == "" {
				bad, sig = fmt.Sprintf("Lookup(%d) on the assembled list returned %v, present=%v", op.K, ok, ref[op.K]), "c18-later-ops"
			}
		}
	}
	var after []string
	{
		n, _ := sl.HeadNode().VerifNext(0)
		for g := 0; n != sl.TailNode() && n != nil && g < 100000; g++ {
			after = append(after, cZ(int64(skiplist.IntFromItem(n.Item()))))
			n, _ = n.VerifNext(0)
		}
	}
	if bad == "" {
		rep2 := sl.GetStats()
		bad, sig = skStructure(sl, rep2.NodeDistribution[:], rep2.SoftDeletes, int64(rep2.NodeCount))
		if bad != "" {
			bad = "after later operations on the assembled list: " + bad
		}
	}
	coq := fmt.Sprintf("CBuild %s %s %d %s %s %s %s %s", cList(segsC), cList(chains), level, cList(counts), cZ(rep.NodeAllocs), cList(ops), cList(res), cList(after))
	empties := 0
	for _, s := range in.Segs {
		if len(s) == 0 {
			empties++
		}
	}
	idx := sink.Add(coq, in, fmt.Sprintf("build-%dsegs-conc%v-sched%v", len(in.Segs), in.Conc, in.Sched != 0), len(in.Segs) >= 2 && len(want) >= 3)
	sink.Count("build-empty-segments", empties)
	if bad != "" {
		sink.Fail(idx, bad, sig, in)
	}
	if arena != nil {
		arena.Release()
	}
}

func c18Gen(r *rand.Rand, i int) *c18Input {
	if i%2 == 0 {
		in := &c18Input{Kind: "merge"}
		nl := 1 + r.Intn(5)
		for l := 0; l < nl; l++ {
			var ks []int
			n := []int{0, 0, 1, 2, 3, 5, 8}[r.Intn(7)]
			for k := 0; k < n; k++ {
				ks = append(ks, r.Intn(12))
			}
			in.Lists = append(in.Lists, ks)
		}
		m := 2 + r.Intn(12)
		valid := false
		for k := 0; k < m; k++ {
			x := r.Intn(100)
			switch {
			case !valid && x < 50, x < 12:
				in.Script = append(in.Script, c18Op{Op: "first"})
			case !valid, x < 30:
				in.Script = append(in.Script, c18Op{Op: "seek", K: r.Intn(14)})
			default:
				in.Script = append(in.Script, c18Op{Op: "next"})
			}
			valid = true
		}
		return in
	}
	in := &c18Input{Kind: "build", Conc: r.Intn(2) == 0, MM: r.Intn(3) == 0}
	if in.Conc && r.Intn(3) > 0 {
		in.Sched = 1 + r.Int63n(1<<40)
	}
	ns := r.Intn(9)
	if in.Sched != 0 {
		ns = 2 + r.Intn(7)
	}
	next := 1
	for s := 0; s < ns; s++ {
		n := []int{0, 0, 1, 2, r.Intn(40)}[r.Intn(5)]
		if in.Sched != 0 && s%4 != 3 {
			n = 1 + r.Intn(4) // many short fillers racing for the height while it is still low
		}
		var ks []int
		for k := 0; k < n; k++ {
			next += 1 + r.Intn(3)
			ks = append(ks, next)
		}
		in.Segs = append(in.Segs, ks)
	}
	m := r.Intn(8)
	for k := 0; k < m; k++ {
		in.Script = append(in.Script, c18Op{Op: []string{"ins", "del", "look"}[r.Intn(3)], K: 1 + r.Intn(next+3)})
	}
	return in
}

func init() {
	commands["c18"] = func(a runArgs) error {
		sink := NewSink(a.out, "C18", "Tie.C18Tie", a.seed)
		sink.scope = "nat_scope"
		sink.perFile = 150
		sink.meta.Rule = "merge: 1..5 lists (sizes 0..8, overlapping/duplicate/empty contents) with scripts of SeekFirst/Seek/Next that reposition before, during and after a scan; build: 0..8 segments (sizes 0,0,1,2,<=40; empty ones leading/trailing), sequential, free-running concurrent or scheduler-driven concurrent fill (threads park before the load and before the update of the shared height, random schedules), both memory modes, the node levels the builder drew are read back and given to the model, then up to 7 Insert/Delete/Lookup on the assembled list; non-trivial = merge script with a re-seek and >=3 items, build with >=2 segments and >=3 items"
		run := func(in *c18Input, r *rand.Rand) {
			if in.Kind == "merge" {
				c18Merge(in, sink)
			} else {
				c18Build(in, r, sink)
			}
		}
		if a.replay != "" {
			bs, err := os.ReadFile(a.replay)
			if err != nil {
				return err
			}
			var rp struct {
				Case c18Input `json:"case"`
			}
			if err := json.Unmarshal(bs, &rp); err != nil {
				return err
			}
			run(&rp.Case, rand.New(rand.NewSource(1)))
			return sink.Flush()
		}
		top := rand.New(rand.NewSource(a.seed))
		for i := 0; i < a.n; i++ {
			in := c18Gen(top, i)
			sink.Begin(in)
			run(in, top)
		}
		return sink.Flush()
	}
}
