package main

import (
	"fmt"
	"sync"
	"syscall"
	"unsafe"
)

// Guard allocator for Config.UseMemoryMgmt: every block lives in its own mmap'ed page range,
// becomes PROT_NONE when freed (a later access faults) and its address is not reused while the
// arena lives.  It keeps a ledger of allocations and frees.
type gblock struct {
	mem   []byte
	size  int
	freed bool
	seq   int
}

type Arena struct {
	mu        sync.Mutex
	blocks    map[uintptr]*gblock
	seq       int
	Mallocs   int
	Frees     int
	BadFrees  []string // double frees / frees of unknown pointers
	LiveBytes int
}

func NewArena() *Arena { return &Arena{blocks: map[uintptr]*gblock{}} }

const pageSize = 4096

func (a *Arena) Malloc(n int) unsafe.Pointer {
	sz := (n + pageSize - 1) / pageSize * pageSize
	if sz == 0 {
		sz = pageSize
	}
	mem, err := syscall.Mmap(-1, 0, sz, syscall.PROT_READ|syscall.PROT_WRITE, syscall.MAP_ANON|syscall.MAP_PRIVATE)
	if err != nil {
		panic(fmt.Sprintf("galloc mmap: %v", err))
	}
	p := unsafe.Pointer(&mem[0])
	a.mu.Lock()
	a.seq++
	a.blocks[uintptr(p)] = &gblock{mem: mem, size: n, seq: a.seq}
	a.Mallocs++
	a.LiveBytes += n
	a.mu.Unlock()
	return p
}

func (a *Arena) Free(p unsafe.Pointer) {
	a.mu.Lock()
	defer a.mu.Unlock()
	b, ok := a.blocks[uintptr(p)]
	if !ok {
		a.BadFrees = append(a.BadFrees, fmt.Sprintf("free of unknown pointer %#x", uintptr(p)))
		return
	}
	if b.freed {
		a.BadFrees = append(a.BadFrees, fmt.Sprintf("double free of block #%d (%d bytes)", b.seq, b.size))
		return
	}
	b.freed = true
	a.Frees++
	a.LiveBytes -= b.size
	syscall.Madvise(b.mem, syscall.MADV_DONTNEED)
	syscall.Mprotect(b.mem, syscall.PROT_NONE)
}

// Live returns the sizes of blocks not yet freed.
func (a *Arena) Live() []int {
	a.mu.Lock()
	defer a.mu.Unlock()
	var out []int
	for _, b := range a.blocks {
		if !b.freed {
			out = append(out, b.size)
		}
	}
	return out
}

// Release unmaps everything (call when the instance using the arena is gone).
func (a *Arena) Release() {
	a.mu.Lock()
	defer a.mu.Unlock()
	for k, b := range a.blocks {
		syscall.Munmap(b.mem)
		delete(a.blocks, k)
	}
}
