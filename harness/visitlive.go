package main

import (
	"bytes"
	"encoding/json"
	"fmt"
	"math/rand"
	"os"
	"path/filepath"
	"strings"
	"sync"
	"time"

	"github.com/couchbase/nitro"
)

// C10 / C04: Visitor on an instance with user-managed memory (guard allocator) while other
// operations run: the first delivery deletes, in its own epoch, every item that was put after the
// visited snapshot (physical unlink + flush), waits for the free workers, and the visit goes on with a
// small refresh rate, so that its iterators renew their barrier sessions and the unlinked nodes —
// among them the physical versions the range split picked as shard boundaries — are really freed.
// Oracle: every item of the snapshot is delivered exactly once, ascending within a shard, shards in
// order; no fault, no double free, no leak. One child process per case.

type vlInput struct {
	Cmp     int   `json:"cmp"`
	Seed    int64 `json:"seed"`
	Visible int   `json:"visible"`
	Extra   int   `json:"extra"` // invisible items per visible one
	Shards  int   `json:"shards"`
	Conc    int   `json:"conc"`
	Rate    int   `json:"rate"`
}

type vlResult struct {
	Bad      string `json:"bad,omitempty"`
	Sig      string `json:"sig,omitempty"`
	Shards   int    `json:"shards"`
	Freed    int    `json:"freed"`
	Delivers int    `json:"delivers"`
}

func vlChild(casePath string) {
	bs, err := os.ReadFile(casePath)
	if err != nil {
		panic(err)
	}
	var in vlInput
	if err := json.Unmarshal(bs, &in); err != nil {
		panic(err)
	}
	installCounterHook()
	mv := &mvInput{Mode: "mvcc", Cmp: in.Cmp, MM: true, Rate: in.Rate}
	e := newExec(mv)
	e.apply(mvOp{Op: "neww"})
	e.ws[0].VerifSeed(in.Seed)
	item := func(i, j int) []byte {
		k := []byte(fmt.Sprintf("k%04d.%d", i, j))
		if in.Cmp == 1 {
			return nitro.KVToBytes(k, []byte("v"))
		}
		return k
	}
	for i := 0; i < in.Visible; i++ {
		e.apply(mvOp{Op: "put", W: 0, Bs: b2i(item(i, 0))})
	}
	e.apply(mvOp{Op: "snap"})
	sn := e.ref.currSn - 1
	snap := e.snaps[sn]
	want := e.ref.snapItm[sn]
	for i := 0; i < in.Visible; i++ {
		for j := 1; j <= in.Extra; j++ {
			e.apply(mvOp{Op: "put", W: 0, Bs: b2i(item(i, j))})
		}
	}
	e.quiesce()
	frees0 := e.arena.Frees
	var mu sync.Mutex
	got := map[int][][]byte{}
	maxShard := -1
	res := vlResult{}
	first := true
	e.liveIter = true
	done := make(chan error, 1)
	go func() {
		done <- e.db.Visitor(snap, func(itm *nitro.Item, shard int) error {
			mu.Lock()
			defer mu.Unlock()
			res.Delivers++
			got[shard] = append(got[shard], append([]byte(nil), itm.Bytes()...))
			if shard > maxShard {
				maxShard = shard
			}
			if first {
				first = false
				for i := 0; i < in.Visible; i++ {
					for j := 1; j <= in.Extra; j++ {
						e.apply(mvOp{Op: "del", W: 0, Bs: b2i(item(i, j))})
					}
				}
			}
			if res.Delivers == 3*in.Rate+4 || res.Delivers == 6*in.Rate+8 {
				// by now the visiting iterator has renewed its session: let the free workers catch up
				deadline := time.Now().Add(time.Second)
				for time.Now().Before(deadline) && e.arena.Frees-frees0 < in.Visible*in.Extra {
					time.Sleep(time.Millisecond)
				}
			}
			return nil
		}, in.Shards, in.Conc)
	}()
	var verr error
	select {
	case verr = <-done:
	case <-time.After(20 * time.Second):
		res.Bad, res.Sig = "Visitor did not terminate within 20s", "c10-hang"
	}
	e.liveIter = false
	res.Shards = maxShard + 1
	res.Freed = e.arena.Frees - frees0
	if res.Bad == "" && verr != nil {
		res.Bad, res.Sig = fmt.Sprintf("Visitor returned %v without a callback error", verr), "c10-err"
	}
	if res.Bad == "" {
		var all [][]byte
		for s := 0; s <= maxShard; s++ {
			for i := 1; i < len(got[s]); i++ {
				if !e.ref.less(got[s][i-1], got[s][i]) {
					res.Bad, res.Sig = fmt.Sprintf("shard %d delivered %q after %q", s, got[s][i], got[s][i-1]), "c10-order"
				}
			}
			all = append(all, got[s]...)
		}
		if res.Bad == "" && !sameItems(all, want) {
			seen := map[string]int{}
			for _, it := range all {
				seen[string(it)]++
			}
			dup, miss := 0, 0
			for _, it := range want {
				if seen[string(it)] == 0 {
					miss++
				} else if seen[string(it)] > 1 {
					dup++
				}
			}
			res.Bad, res.Sig = fmt.Sprintf("Visitor with %d shards during concurrent deletes delivered %d items, the snapshot holds %d: %d missing, %d delivered more than once", in.Shards, len(all), len(want), miss, dup), "c10-partition"
		}
	}
	if res.Bad == "" {
		e.finish()
		if len(e.bad) > 0 {
			res.Bad, res.Sig = e.bad[0], e.sig
		}
	}
	out, _ := json.Marshal(&res)
	os.Stdout.Write(out)
	_ = bytes.Equal
}

func init() {
	commands["child-visit-live"] = func(a runArgs) error { vlChild(a.casep); return nil }
	commands["visit-live"] = func(a runArgs) error {
		sink := NewSink(a.out, "C10", "", a.seed)
		sink.meta.Rule = "ORACLE ONLY: Visitor (8..16 shards, 1..2 workers, refresh rate 1..3) on an instance with user-managed memory on the guard allocator; 40..120 visible items, 1..3 invisible items (put after the snapshot) next to each; the first delivery deletes all invisible items in their own epoch and the free workers reclaim them while the visit runs (the shard boundaries chosen by the range split are physical versions and may be among them); one child process per case; oracles: each snapshot item delivered exactly once, ascending per shard, no fault (use-after-free), no double free, no leak; non-trivial = >= 3 shards and >= 50 blocks freed during the visit"
		tmp, err := os.MkdirTemp("", "vh-vl-")
		if err != nil {
			return err
		}
		defer os.RemoveAll(tmp)
		run := func(in *vlInput, i int) {
			casePath := filepath.Join(tmp, fmt.Sprintf("vl%d.json", i))
			bs, _ := json.Marshal(in)
			os.WriteFile(casePath, bs, 0644)
			raw, fail := runChildRaw(60*time.Second, "child-visit-live", "-case", casePath)
			var res vlResult
			if fail == "" {
				if err := json.Unmarshal(raw, &res); err != nil {
					fail = "panic: bad child output " + lastLines(string(raw), 3)
				}
			}
			idx := sink.Add(fmt.Sprintf("(* visit-live %d *)", in.Seed), in, fmt.Sprintf("visit-live-cmp%d", in.Cmp), res.Shards >= 3 && res.Freed >= 50)
			switch {
			case fail == "hang":
				sink.Fail(idx, "the visit did not finish within 60s", "c10-hang", in)
			case fail != "":
				sig := "c10-crash"
				if strings.Contains(fail, "SIGSEGV") || strings.Contains(fail, "fault address") {
					sig = "c10-uaf"
				}
				sink.Fail(idx, "the process died during a Visitor run with concurrent deletes (an access to freed memory faults under the guard allocator): "+fail, sig, in)
			case res.Bad != "":
				sink.Fail(idx, res.Bad, res.Sig, in)
			}
		}
		if a.replay != "" {
			bs, err := os.ReadFile(a.replay)
			if err != nil {
				return err
			}
			var rp struct {
				Case vlInput `json:"case"`
			}
			if err := json.Unmarshal(bs, &rp); err != nil {
				return err
			}
			run(&rp.Case, 0)
			sink.cases = nil
			return sink.Flush()
		}
		top := rand.New(rand.NewSource(a.seed))
		for i := 0; i < a.n; i++ {
			in := &vlInput{Cmp: i % 2, Seed: top.Int63(), Visible: 40 + top.Intn(81), Extra: 1 + top.Intn(3), Shards: []int{8, 16}[top.Intn(2)], Conc: 1 + top.Intn(2), Rate: 1 + top.Intn(3)}
			run(in, i)
		}
		sink.cases = nil
		return sink.Flush()
	}
}
