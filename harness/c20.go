package main

import (
	"bytes"
	"encoding/json"
	"fmt"
	"hash/crc32"
	"math/rand"
	"os"
	"regexp"
	"strconv"
	"strings"
	"unsafe"

	"github.com/couchbase/nitro"
	"github.com/couchbase/nitro/nodetable"
	"github.com/couchbase/nitro/skiplist"
)

type c20Op struct {
	Op  string `json:"op"` // u g r | a k (list)
	Key int    `json:"key"`
	ID  int    `json:"id,omitempty"`
}
type c20Input struct {
	Kind string  `json:"kind"` // table | list
	Hash int     `json:"hash,omitempty"`
	Ops  []c20Op `json:"ops"`
}

type c20Obj struct {
	key []byte
	id  int
}

var c20Keep []*c20Obj

func c20Hash(kind int) nodetable.HashFn {
	switch kind {
	case 0:
		return func([]byte) uint32 { return 7 }
	case 1:
		return func(k []byte) uint32 { return uint32(k[0]) % 2 }
	case 2:
		return func(k []byte) uint32 { return uint32(k[0]) % 3 }
	case 3:
		return crc32.ChecksumIEEE
	}
	return func(k []byte) uint32 { return uint32(k[0]) }
}

var c20StatRe = regexp.MustCompile(`"(\w+)":\s+(-?\d+)`)

func c20RunTable(in *c20Input, sink *CaseSink) {
	ids := map[unsafe.Pointer]int{}
	nt := nodetable.New(c20Hash(in.Hash), func(p unsafe.Pointer, k []byte) bool {
		return bytes.Equal((*c20Obj)(p).key, k)
	})
	defer nt.Close()
	ref := map[int]int{} // oracle: key -> id
	var coqOps, coqObs []string
	oracleBad := ""
	overflowRemoved := false
	panicked := false
	for _, op := range in.Ops {
		if panicked {
			break
		}
		key := []byte{byte(op.Key)}
		var flag bool
		var p unsafe.Pointer
		func() {
			defer func() {
				if e := recover(); e != nil {
					panicked = true
					if oracleBad == "" {
						oracleBad = fmt.Sprintf("%s(%d) panicked: %v", map[string]string{"u": "Update", "g": "Get", "r": "Remove"}[op.Op], op.Key, e)
					}
				}
			}()
			c20TableOp(nt, op, key, ids, ref, &flag, &p, &coqOps, &oracleBad, &overflowRemoved)
		}()
		if panicked {
			coqObs = append(coqObs, "(false, None, (-1)%Z)")
			continue
		}
		if int(nt.ItemsCount()) != len(ref) && oracleBad == "" {
			oracleBad = fmt.Sprintf("ItemsCount=%d but reference map holds %d keys", nt.ItemsCount(), len(ref))
		}
		pid := "None"
		if p != nil {
			pid = fmt.Sprintf("(Some %d)", ids[p])
		}
		coqObs = append(coqObs, fmt.Sprintf("(%s, %s, %s)", cBool(flag), pid, cZ(nt.ItemsCount())))
	}
	c20TableFinish(nt, in, sink, coqOps, coqObs, oracleBad, overflowRemoved)
}

func c20TableOp(nt *nodetable.NodeTable, op c20Op, key []byte, ids map[unsafe.Pointer]int, ref map[int]int,
	flagp *bool, pp *unsafe.Pointer, coqOpsP *[]string, oracleBadP *string, overflowRemovedP *bool) {
	var flag bool
	var p unsafe.Pointer
	coqOps := *coqOpsP
	oracleBad := *oracleBadP
	overflowRemoved := *overflowRemovedP
	defer func() {
		*flagp, *pp, *coqOpsP, *oracleBadP, *overflowRemovedP = flag, p, coqOps, oracleBad, overflowRemoved
	}()
	{
		switch op.Op {
		case "u":
			o := &c20Obj{key: key, id: op.ID}
			c20Keep = append(c20Keep, o)
			ids[unsafe.Pointer(o)] = op.ID
			flag, p = nt.Update(key, unsafe.Pointer(o))
			coqOps = append(coqOps, fmt.Sprintf("OUpdate %d %d", op.Key, op.ID))
			old, had := ref[op.Key]
			if flag != had || (had && ids[p] != old) || (!had && p != nil) {
				oracleBad = fmt.Sprintf("Update(%d) returned (%v,%v) but reference map had=%v old=%d", op.Key, flag, ids[p], had, old)
			}
			ref[op.Key] = op.ID
		case "g":
			p = nt.Get(key)
			flag = p != nil
			coqOps = append(coqOps, fmt.Sprintf("OGet %d", op.Key))
			old, had := ref[op.Key]
			if flag != had || (had && ids[p] != old) {
				oracleBad = fmt.Sprintf("Get(%d) returned %v/%d but reference map had=%v val=%d", op.Key, flag, ids[p], had, old)
			}
		case "r":
			flag, p = nt.Remove(key)
			coqOps = append(coqOps, fmt.Sprintf("ORemove %d", op.Key))
			old, had := ref[op.Key]
			if flag != had || (had && ids[p] != old) || (!had && p != nil) {
				oracleBad = fmt.Sprintf("Remove(%d) returned (%v,%v) but reference map had=%v old=%d", op.Key, flag, ids[p], had, old)
			}
			if had {
				overflowRemoved = true
			}
			delete(ref, op.Key)
		}
	}
}

func c20TableFinish(nt *nodetable.NodeTable, in *c20Input, sink *CaseSink, coqOps, coqObs []string, oracleBad string, overflowRemoved bool) {
	st := map[string]int64{}
	for _, m := range c20StatRe.FindAllStringSubmatch(nt.Stats(), -1) {
		v, _ := strconv.ParseInt(m[2], 10, 64)
		st[m[1]] = v
	}
	coq := fmt.Sprintf("CTable %d %s %s %s %s %s %s", in.Hash, cList(coqOps), cList(coqObs),
		cZ(st["FastHTCount"]), cZ(st["SlowHTCount"]), cZ(st["Conflicts"]), cZ(nt.MemoryInUse()))
	idx := sink.Add(coq, in, fmt.Sprintf("table-hash%d", in.Hash), overflowRemoved && st["SlowHTCount"]+st["Conflicts"] >= 0 && len(in.Ops) >= 4)
	if oracleBad != "" {
		sink.Fail(idx, "node table disagrees with a Go map: "+oracleBad, "c20-table", in)
	}
}

func c20RunList(db *nitro.Nitro, sl *skiplist.Skiplist, in *c20Input, sink *CaseSink) {
	nl := nitro.NewNodeList(nil)
	ids := map[*skiplist.Node]int{}
	byID := map[int]*skiplist.Node{}
	type ent struct{ key, id int }
	var ref []ent
	var coqOps, coqObs []string
	oracleBad := ""
	// guard: the chain from the head (= the most recently added node still present) must hold exactly
	// the reference's nodes; a stale Link may close a cycle, and Keys/Remove would never return
	chainOK := func() bool {
		if len(ref) == 0 {
			return true
		}
		cnt := 0
		for n := byID[ref[0].id]; n != nil; n = n.GetLink() {
			cnt++
			if cnt > len(ref) {
				break
			}
		}
		if cnt != len(ref) && oracleBad == "" {
			oracleBad = fmt.Sprintf("the chain from the head holds %s nodes, the reference list %d (a removed node came back through a stale Link)", map[bool]string{true: "more than " + fmt.Sprint(len(ref)), false: fmt.Sprint(cnt)}[cnt > len(ref)], len(ref))
		}
		return cnt == len(ref)
	}
	for _, op := range in.Ops {
		if !chainOK() {
			break
		}
		switch op.Op {
		case "a":
			n := byID[op.ID] // a node that was removed earlier is added again as it is
			if n == nil {
				n = sl.NewNode(0)
				n.SetItem(unsafe.Pointer(db.VerifNewItem([]byte{byte(op.Key)})))
				ids[n] = op.ID
				byID[op.ID] = n
			}
			nl.Add(n)
			ref = append([]ent{{op.Key, op.ID}}, ref...)
			coqOps = append(coqOps, fmt.Sprintf("LAdd %d %d", op.Key, op.ID))
			coqObs = append(coqObs, "[]")
		case "r":
			n := nl.Remove([]byte{byte(op.Key)})
			coqOps = append(coqOps, fmt.Sprintf("LRemove %d", op.Key))
			want := -1
			for i, e := range ref {
				if e.key == op.Key {
					want = e.id
					ref = append(append([]ent{}, ref[:i]...), ref[i+1:]...)
					break
				}
			}
			if n == nil {
				coqObs = append(coqObs, "[0]")
				if want != -1 {
					oracleBad = fmt.Sprintf("Remove(%d) returned nil but the reference list holds node %d", op.Key, want)
				}
			} else {
				coqObs = append(coqObs, fmt.Sprintf("[1; %d]", ids[n]))
				if want != ids[n] {
					oracleBad = fmt.Sprintf("Remove(%d) returned node %d, reference list says %d", op.Key, ids[n], want)
				}
			}
		case "k":
			var ks []string
			keys := nl.Keys()
			for _, k := range keys {
				ks = append(ks, fmt.Sprintf("%d", k[0]))
			}
			coqOps = append(coqOps, "LKeys")
			coqObs = append(coqObs, cList(ks))
			if len(keys) != len(ref) {
				oracleBad = fmt.Sprintf("Keys returned %d keys, reference list has %d", len(keys), len(ref))
			} else {
				for i := range keys {
					if int(keys[i][0]) != ref[i].key {
						oracleBad = "Keys order differs from the reference list"
					}
				}
			}
		}
	}
	coq := fmt.Sprintf("CList %s %s", cList(coqOps), cList(coqObs))
	idx := sink.Add(coq, in, "list", len(in.Ops) >= 4)
	if oracleBad != "" {
		sink.Fail(idx, "node list disagrees with a reference list: "+oracleBad, "c20-list", in)
	}
}

func c20Gen(r *rand.Rand, nextID *int) *c20Input {
	if r.Intn(5) == 0 {
		in := &c20Input{Kind: "list"}
		n := 3 + r.Intn(30)
		nk := 2 + r.Intn(5)
		// the generator simulates the list to know which nodes were removed: an application moves
		// nodes between lists, so a removed node (its Link still set) is added again later, also to a
		// list that was drained meanwhile
		type ent struct{ key, id int }
		var sim, removed []ent
		drain := r.Intn(3) == 0
		for i := 0; i < n; i++ {
			switch x := r.Intn(12); {
			case x < 5:
				*nextID++
				k := r.Intn(nk)
				in.Ops = append(in.Ops, c20Op{Op: "a", Key: k, ID: *nextID})
				sim = append([]ent{{k, *nextID}}, sim...)
			case x >= 10:
				if drain && len(sim) > 0 && len(removed) > 0 {
					// drain the list completely, then re-add a node that was removed from its middle
					for len(sim) > 0 {
						in.Ops = append(in.Ops, c20Op{Op: "r", Key: sim[0].key})
						removed = append(removed, sim[0])
						sim = sim[1:]
					}
				}
				if len(removed) > 0 {
					j := r.Intn(len(removed))
					e := removed[j]
					removed = append(removed[:j], removed[j+1:]...)
					in.Ops = append(in.Ops, c20Op{Op: "a", Key: e.key, ID: e.id})
					sim = append([]ent{e}, sim...)
				}
			case x < 8:
				k := r.Intn(nk)
				in.Ops = append(in.Ops, c20Op{Op: "r", Key: k})
				for j, e := range sim {
					if e.key == k {
						removed = append(removed, e)
						sim = append(append([]ent{}, sim[:j]...), sim[j+1:]...)
						break
					}
				}
			default:
				in.Ops = append(in.Ops, c20Op{Op: "k"})
			}
		}
		in.Ops = append(in.Ops, c20Op{Op: "k"})
		return in
	}
	in := &c20Input{Kind: "table", Hash: r.Intn(5)}
	n := 5 + r.Intn(120)
	nk := 2 + r.Intn(9)
	present := map[int]bool{}
	for i := 0; i < n; i++ {
		x := r.Intn(100)
		k := r.Intn(nk)
		switch {
		case x < 45:
			*nextID++
			in.Ops = append(in.Ops, c20Op{Op: "u", Key: k, ID: *nextID})
			present[k] = true
		case x < 60:
			in.Ops = append(in.Ops, c20Op{Op: "g", Key: k})
		case x < 90:
			// bias: remove a present key (often the oldest = the fast entry of its bucket)
			if len(present) > 0 && r.Intn(3) > 0 {
				for kk := 0; kk < nk; kk++ {
					if present[kk] {
						k = kk
						break
					}
				}
			}
			in.Ops = append(in.Ops, c20Op{Op: "r", Key: k})
			delete(present, k)
		default:
			// remove then immediately re-add
			in.Ops = append(in.Ops, c20Op{Op: "r", Key: k})
			*nextID++
			in.Ops = append(in.Ops, c20Op{Op: "u", Key: k, ID: *nextID})
			present[k] = true
		}
	}
	return in
}

func init() {
	commands["c20"] = func(a runArgs) error {
		db := nitro.New()
		sl := skiplist.New()
		sink := NewSink(a.out, "C20", "Tie.C20Tie", a.seed)
		sink.meta.Rule = "op sequences (5..125 ops over 2..10 keys) with hash in {constant, mod 2, mod 3, crc32, identity}, biased to removing the oldest present key (the fast entry of a bucket with overflow) and re-adding; node-list scripts of Add/Remove/Keys; non-trivial = at least one successful Remove and >=4 ops; distinct by Coq term; node lists: removed nodes are re-added later (their Link still set), also after the list was drained"
		run := func(in *c20Input) {
			if in.Kind == "list" {
				c20RunList(db, sl, in, sink)
			} else {
				c20RunTable(in, sink)
			}
		}
		if a.replay != "" {
			bs, err := os.ReadFile(a.replay)
			if err != nil {
				return err
			}
			var rp struct {
				Case c20Input `json:"case"`
			}
			if err := json.Unmarshal(bs, &rp); err != nil {
				return err
			}
			run(&rp.Case)
			return sink.Flush()
		}
		r := rand.New(rand.NewSource(a.seed))
		id := 100
		for i := 0; i < a.n; i++ {
			run(c20Gen(r, &id))
		}
		return sink.Flush()
	}
	_ = strings.Join
}
