package main

import (
	"bytes"
	"fmt"
	"math/rand"
)

// C01/C09 on a moving store: a long-lived snapshot iterator with generated operations between its
// steps. Single goroutine (plus Nitro's own collection and free workers): at this granularity every
// interleaving of whole operations with iterator steps is a sequence, which is what Mvcc/Live.v models.
// Cases are regenerated from their seed on replay.
func runLive(in *mvInput, r *rand.Rand, n int, sink *CaseSink) {
	e := mvGenerate(r, in, n, false)
	if len((&mvGen{e: e}).openSnaps()) == 0 {
		e.apply(mvOp{Op: "snap"})
	}
	os := (&mvGen{e: e}).openSnaps()
	sn := os[r.Intn(len(os))]
	if r.Intn(3) == 0 {
		sn = os[0]
	}
	in.Sn = int(sn)
	snap := e.snaps[sn]
	view := e.ref.snapItm[sn]
	it := snap.NewIterator()
	e.liveIter = true
	g := &mvGen{r: r, e: e, nkeys: 9, protect: sn}
	// the iterator holds its own reference of the snapshot: in half of the cases that reference is
	// made explicit (an OpenSnap for the model and the reference) and the creator's handle may then be
	// closed while the scan is running
	ownRef := r.Intn(2) == 0
	if ownRef {
		e.ref.snapRef[sn]++
		e.coqOps = append(e.coqOps, fmt.Sprintf("OpenSnap %d", sn))
		e.coqObs = append(e.coqObs, "OBool true") // protect keeps the last reference (now the iterator's)
	}
	pre := len(e.coqOps)
	preOps := cList(e.coqOps[:pre])
	var script, iobs, outs []string
	var got [][]byte
	changed := 0
	observe := func() {
		if it.Valid() {
			bs := append([]byte(nil), it.Get()...)
			iobs = append(iobs, fmt.Sprintf("(true, Some (%s, %d))", cBytes(bs), e.nodeID[it.GetNode()]))
			got = append(got, bs)
		} else {
			iobs = append(iobs, "(false, None)")
		}
	}
	segment := func() {
		k := r.Intn(7)
		if k == 0 {
			return
		}
		a := len(e.coqOps)
		before := fmt.Sprint(e.physical())
		for i := 0; i < k; i++ {
			g.step(true)
		}
		if fmt.Sprint(e.physical()) != before {
			changed++
		}
		script = append(script, "LOps "+cList(e.coqOps[a:]))
		outs = append(outs, cList(e.coqObs[a:]))
	}
	rate := []int{0, 0, 1, 2, 3, 7}[r.Intn(6)]
	if rate > 0 {
		it.SetRefreshRate(rate)
		script = append(script, "LSetRate "+cZ(int64(rate)))
		iobs = append(iobs, "(false, None)")
	}
	segment()
	start := 0
	if r.Intn(4) == 0 && len(view) > 0 {
		probe := view[r.Intn(len(view))]
		it.Seek(probe)
		script = append(script, "LSeek "+cBytes(probe))
		for start < len(view) && e.ref.less(view[start], probe) {
			start++
		}
	} else {
		it.SeekFirst()
		script = append(script, "LSeekFirst")
	}
	observe()
	for steps := 0; it.Valid() && steps < 200; steps++ {
		segment()
		if r.Intn(8) == 0 {
			it.Refresh()
			script = append(script, "LRefresh")
			observe()
			if len(got) >= 2 {
				got = got[:len(got)-1] // Refresh does not move: the same item is observed again
			}
		}
		it.Next()
		script = append(script, "LNext")
		observe()
	}
	it.Close()
	e.liveIter = false
	if ownRef {
		e.ref.snapRef[sn]--
		e.coqOps = append(e.coqOps, fmt.Sprintf("CloseSnap %d", sn))
		e.coqObs = append(e.coqObs, "OUnit")
	}
	coq := fmt.Sprintf("CLive %d %s %d %s %s %s", in.Cmp, preOps, sn, cList(script), cList(iobs), cList(outs))
	// oracle: exactly the items the snapshot held at its creation, from the start position on
	bad := ""
	want := view[start:]
	if len(got) != len(want) {
		bad = fmt.Sprintf("a scan of open snapshot %d interleaved with other operations returned %d items, the snapshot holds %d from the start position: got %q want %q", sn, len(got), len(want), got, want)
	} else {
		for i := range want {
			if !bytes.Equal(got[i], want[i]) {
				bad = fmt.Sprintf("a scan of open snapshot %d interleaved with other operations returned %q at position %d, the snapshot holds %q there", sn, got[i], i, want[i])
				break
			}
		}
	}
	rec := &mvInput{Mode: "live", Cmp: in.Cmp, MM: in.MM, GenSeed: in.GenSeed, GenN: in.GenN}
	idx := sink.Add(coq, rec, fmt.Sprintf("live-cmp%d-mm%v-rate%d-own%v", in.Cmp, in.MM, rate, ownRef), changed >= 3 && len(view) >= 2)
	if bad != "" {
		sink.Fail(idx, bad, "c01-live-scan", rec)
	}
	e.finish()
	if len(e.bad) > 0 {
		sink.Fail(idx, e.bad[0], e.sig, rec)
	}
}
