package main

import (
	"encoding/json"
	"fmt"
	"math/rand"
	"os"
	"path/filepath"
	"strings"
	"sync/atomic"
	"time"
	"unsafe"

	"github.com/couchbase/nitro"
	"github.com/couchbase/nitro/skiplist"
)

// C04: safe memory reclamation. Writers, deleters and iterators on an instance with user-managed
// memory on the guard allocator, under the deterministic scheduler at fine granularity. Every case
// runs in a child process: a use-after-free is a SIGSEGV there, a double free is recorded by the
// allocator, and a node that was freed while still linked is found by a walk that checks every
// pointer against the allocator's freed set before following it.

type smrOp struct {
	Op string `json:"op"` // put del get scan
	Bs []int  `json:"bs,omitempty"`
	R  int    `json:"r,omitempty"` // scan: refresh rate
}

type smrInput struct {
	Cmp     int       `json:"cmp"`
	Setup   []mvOp    `json:"setup"`
	Progs   [][]smrOp `json:"progs"`
	Choices []int     `json:"choices,omitempty"`
	Sticky  int       `json:"sticky"`
	Seed    int64     `json:"seed"`
	Points  string    `json:"points"` // coarse | fine
	Duel    bool      `json:"duel,omitempty"` // one key: writers putting and deleting the very same item
	Tall    bool      `json:"tall,omitempty"` // writers' level generators seeded so that their first nodes are tall
	// systematic mode: the running goroutine is switched only after a step that ended at one of these
	// labels (0 = operation completed); Choices then lists the decisions taken at those points
	Switch []int `json:"switch,omitempty"`
}

// tallSeed returns the first seed >= base whose generator makes the first two nodes of a writer at
// least one level high (the level generator draws until a value >= 0.25 comes up)
func tallSeed(base int64) int64 {
	for s := base; ; s++ {
		r := rand.New(rand.NewSource(s))
		a := r.Float32()
		for r.Float32() < 0.25 {
		}
		if a < 0.25 && r.Float32() < 0.25 {
			return s
		}
	}
}

type smrResult struct {
	Finished bool   `json:"finished"`
	Bad      string `json:"bad,omitempty"`
	Sig      string `json:"sig,omitempty"`
	Steps    int    `json:"steps"`
	Preempt  int    `json:"preempt"`
	Frees    int    `json:"frees"`
	Choices  []int  `json:"choices"`
	Labels   []int  `json:"labels,omitempty"` // yield-point label reached by each step (0 = operation completed)
	Decisions  []int   `json:"decisions,omitempty"`   // systematic mode: what was decided at each switch point
	DecEnabled [][]int `json:"dec_enabled,omitempty"` // and which goroutines were enabled there
	Case     *smrInput `json:"case,omitempty"` // the full generated case, for the corpus
}

func (a *Arena) IsFreed(p unsafe.Pointer) bool {
	a.mu.Lock()
	defer a.mu.Unlock()
	b, ok := a.blocks[uintptr(p)]
	return ok && b.freed
}

func (a *Arena) Known(p unsafe.Pointer) bool {
	a.mu.Lock()
	defer a.mu.Unlock()
	_, ok := a.blocks[uintptr(p)]
	return ok
}

func smrGen(r *rand.Rand) *smrInput {
	if r.Intn(3) == 0 {
		in := &smrInput{Cmp: r.Intn(2), Sticky: []int{0, 30, 70}[r.Intn(3)], Seed: r.Int63(), Points: "fine", Duel: true}
		if r.Intn(2) == 0 {
			// tall nodes and parking inside the path search: an equal item seen at an upper level and
			// deleted before the search reaches level 0
			in.Points, in.Tall, in.Sticky = "finest", true, []int{50, 70, 85}[r.Intn(3)]
		}
		return in
	}
	in := &smrInput{Cmp: r.Intn(2), Sticky: []int{0, 20, 50}[r.Intn(3)], Seed: r.Int63(), Points: []string{"coarse", "fine", "fine"}[r.Intn(3)]}
	return in
}

// the child: builds the instance, runs the schedule, checks; prints smrResult
func smrChild(casePath string) {
	bs, err := os.ReadFile(casePath)
	if err != nil {
		panic(err)
	}
	var in smrInput
	if err := json.Unmarshal(bs, &in); err != nil {
		panic(err)
	}
	r := rand.New(rand.NewSource(in.Seed))
	installCounterHook()
	counter := nitro.VerifYieldHook
	mv := &mvInput{Mode: "mvcc", Cmp: in.Cmp, MM: true}
	var e *mvExec
	if len(in.Setup) > 0 {
		mv.Ops = in.Setup
		e = mvReplay(mv)
	} else {
		e = newExec(mv)
		g := &mvGen{r: r, e: e, nkeys: 2 + r.Intn(3)}
		if in.Duel {
			g.nkeys = 1
		}
		for i := 0; i < 3; i++ {
			g.do(mvOp{Op: "neww"})
		}
		for ep := 0; ep < r.Intn(3); ep++ {
			for i := 0; i < 1+r.Intn(5); i++ {
				if r.Intn(3) > 0 {
					g.do(mvOp{Op: "put", W: r.Intn(3), Bs: b2i(g.item(r.Intn(g.nkeys)))})
				} else {
					g.do(mvOp{Op: "del", W: r.Intn(3), Bs: b2i(g.item(r.Intn(g.nkeys)))})
				}
			}
			g.do(mvOp{Op: "snap"})
			if r.Intn(2) == 0 {
				os_ := g.openSnaps()
				g.do(mvOp{Op: "close", Sn: int(os_[0])})
			}
		}
		// items born in the current epoch: deleting them is a physical removal followed by a free
		for i := 0; i < r.Intn(4); i++ {
			g.do(mvOp{Op: "put", W: r.Intn(3), Bs: b2i(g.item(r.Intn(g.nkeys)))})
		}
		in.Setup = g.ops
		nt := 2 + r.Intn(2)
		for t := 0; t < nt; t++ {
			var prog []smrOp
			if in.Duel {
				bs := []byte{'a'}
				if in.Cmp == 1 {
					bs = nitro.KVToBytes([]byte{'a'}, nil)
				}
				for k := 0; k < 2; k++ {
					prog = append(prog, smrOp{Op: []string{"put", "del", "del", "get"}[r.Intn(4)], Bs: b2i(bs)})
				}
				in.Progs = append(in.Progs, prog)
				continue
			}
			for k := 0; k < 1+r.Intn(3); k++ {
				bs := g.item(r.Intn(g.nkeys))
				switch x := r.Intn(10); {
				case x < 5:
					prog = append(prog, smrOp{Op: "put", Bs: b2i(bs)})
				case x < 9:
					prog = append(prog, smrOp{Op: "del", Bs: b2i(bs)})
				default:
					prog = append(prog, smrOp{Op: "get", Bs: b2i(bs)})
				}
			}
			in.Progs = append(in.Progs, prog)
		}
	}
	// the generated case, for a parent that has to explain a crash of this process
	if gbs, err := json.Marshal(&in); err == nil {
		os.WriteFile(casePath+".gen", gbs, 0644)
	}
	for i, w := range e.ws {
		if in.Tall {
			w.VerifSeed(tallSeed((in.Seed + int64(i)*7919) & 0xffffff))
		} else {
			w.VerifSeed(in.Seed + int64(i))
		}
	}
	e.quiesce()
	nt := len(in.Progs)
	var spoints []int
	if in.Points == "fine" {
		spoints = []int{skiplist.VerifPtInsPub, skiplist.VerifPtInsOwn, skiplist.VerifPtInsLink, skiplist.VerifPtInsCheck, skiplist.VerifPtSdCas, skiplist.VerifPtFPH}
	} else if in.Points == "finest" {
		spoints = []int{skiplist.VerifPtInsPub, skiplist.VerifPtInsOwn, skiplist.VerifPtInsLink, skiplist.VerifPtInsCheck, skiplist.VerifPtInsSucc, skiplist.VerifPtSdCas, skiplist.VerifPtFPH, skiplist.VerifPtFP2, skiplist.VerifPtSdLoad, skiplist.VerifPtAcqLoaded}
	} else {
		spoints = []int{skiplist.VerifPtInsPub}
	}
	sch := NewSched(nt, append([]int{nitro.VerifPtDelGot}, spoints...)...)
	nitro.VerifYieldHook = func(p int) {
		counter(p)
		if p == nitro.VerifPtDelGot {
			sch.Hook(p)
		}
	}
	mask := map[int]bool{}
	for _, p := range spoints {
		mask[p] = true
	}
	skiplist.VerifYieldHook = func(p int) {
		if mask[p] {
			sch.Hook(p)
		}
	}
	// frees happen in Nitro's own free workers: let them catch up after every step so that "freed"
	// is a deterministic function of the schedule
	traceFile, _ := os.OpenFile(casePath+".trace", os.O_CREATE|os.O_TRUNC|os.O_WRONLY, 0644)
	sch.OnStep = func(tid, label int) {
		if traceFile != nil {
			// unbuffered: the parent reads it when this process dies
			fmt.Fprintf(traceFile, "%d %d\n", tid, label)
		}
		deadline := time.Now().Add(2 * time.Second)
		for time.Now().Before(deadline) {
			fs, fd := atomic.LoadInt64(&hookFreeSent)-e.base[2], atomic.LoadInt64(&hookFreeDone)-e.base[3]
			if fs == fd {
				return
			}
			time.Sleep(20 * time.Microsecond)
		}
	}
	for t := 0; t < nt; t++ {
		t := t
		w := e.ws[t%len(e.ws)]
		sch.Go(t, func() {
			for _, op := range in.Progs[t] {
				sch.OpStart(t)
				bs := i2b(op.Bs)
				switch op.Op {
				case "put":
					w.Put2(bs)
				case "del":
					w.Delete2(bs)
				case "get":
					w.GetNode(bs)
				}
			}
		})
	}
	var chooser func([]int) int
	var decisions []int
	var decEnabled [][]int
	if len(in.Switch) > 0 {
		sw := map[int]bool{}
		for _, l := range in.Switch {
			sw[l] = true
		}
		inner := nonPreemptiveAfter(in.Choices)
		last := -1
		chooser = func(en []int) int {
			if last >= 0 {
				n := len(sch.Trace)
				still := false
				for _, x := range en {
					if x == last {
						still = true
					}
				}
				if still && n > 0 && sch.Trace[n-1][0] == last && !sw[sch.Trace[n-1][1]] {
					return last
				}
			}
			c := inner(en)
			decisions = append(decisions, c)
			decEnabled = append(decEnabled, append([]int(nil), en...))
			last = c
			return c
		}
	} else if len(in.Choices) > 0 {
		chooser = replayChooser(in.Choices)
	} else {
		chooser = randomChooser(rand.New(rand.NewSource(in.Seed^0x5bd1e995)), in.Sticky)
	}
	// record the choices as they are made, so that a crash can be replayed
	wrapped := func(en []int) int {
		c := chooser(en)
		in.Choices = append(in.Choices, c)
		return c
	}
	if len(in.Choices) > 0 || len(in.Switch) > 0 {
		wrapped = chooser
	}
	sch.Run(nt, wrapped, 4000)
	res := smrResult{Finished: sch.AllFinished(), Steps: len(sch.Trace), Decisions: decisions, DecEnabled: decEnabled}
	if !res.Finished {
		sch.Abandon()
	}
	nitro.VerifYieldHook = counter
	skiplist.VerifYieldHook = nil
	for i := 1; i < len(sch.Trace); i++ {
		if sch.Trace[i][0] != sch.Trace[i-1][0] && sch.Trace[i-1][1] != 0 {
			res.Preempt++
		}
	}
	for _, s := range sch.Trace {
		res.Choices = append(res.Choices, s[0])
		res.Labels = append(res.Labels, s[1])
	}
	if sch.stall {
		res.Bad, res.Sig = "a scheduled goroutine neither reached a yield point nor finished within 20s", "c04-stall"
	}
	e.quiesce()
	// walk every level without ever following a pointer into freed memory
	st := e.db.VerifStore()
	for l := st.VerifLevel(); l >= 0 && res.Bad == ""; l-- {
		n, _ := st.HeadNode().VerifNext(l)
		for g := 0; n != st.TailNode() && n != nil && g < 100000; g++ {
			if e.arena.IsFreed(unsafe.Pointer(n)) {
				res.Bad, res.Sig = fmt.Sprintf("a node that has been returned to the allocator is still linked at level %d of the store", l), "c04-freed-linked"
				break
			}
			if e.arena.IsFreed(n.Item()) {
				res.Bad, res.Sig = fmt.Sprintf("the item of a node linked at level %d has been returned to the allocator", l), "c04-freed-linked"
				break
			}
			n, _ = n.VerifNext(l)
		}
	}
	if res.Bad == "" && len(e.arena.BadFrees) > 0 {
		res.Bad, res.Sig = "allocator: "+strings.Join(e.arena.BadFrees, "; "), "c04-double-free"
	}
	res.Frees = e.arena.Frees
	if res.Bad == "" && res.Finished {
		e.finish()
		if len(e.bad) > 0 {
			res.Bad, res.Sig = e.bad[0], e.sig
		}
	}
	full := in
	full.Choices = res.Choices
	full.Switch = nil // the recorded case replays the complete schedule step by step
	res.Case = &full
	out, _ := json.Marshal(&res)
	os.Stdout.Write(out)
}

// smrLateLink reads the step trace a child left behind and reports whether the schedule contains the
// pattern of known finding D17: a Delete of a key completed while a Put of the same key, already
// published at level 0, was parked before one of its upper-level link CASes, and that Put then went on
// (linking a node that its deleter has already handed to the reclamation barrier).
func smrLateLink(in *smrInput, tracePath string) bool {
	bs, err := os.ReadFile(tracePath)
	if err != nil {
		return false
	}
	type st struct{ tid, label int }
	var tr []st
	for _, ln := range strings.Split(string(bs), "\n") {
		var a, b int
		if n, _ := fmt.Sscanf(ln, "%d %d", &a, &b); n == 2 {
			tr = append(tr, st{a, b})
		}
	}
	nt := len(in.Progs)
	opIdx := make([]int, nt)
	published := make([]int, nt) // step index of the publish CAS of the thread's current put, -1 = none
	parkedPub := make([]bool, nt)
	parkedLink := make([]bool, nt)
	for i := range published {
		published[i] = -1
	}
	type done struct {
		at  int
		key string
	}
	var dels []done
	keyOf := func(t int) (string, string) {
		if t >= nt || opIdx[t] >= len(in.Progs[t]) {
			return "", ""
		}
		o := in.Progs[t][opIdx[t]]
		return o.Op, fmt.Sprint(o.Bs)
	}
	for i, e := range tr {
		t := e.tid
		if t >= nt {
			continue
		}
		op, k := keyOf(t)
		// this step began where the thread was parked before
		if parkedPub[t] {
			published[t] = i
		}
		if parkedLink[t] && published[t] >= 0 && op == "put" {
			// the link CAS is performed by this step: was a delete of the key completed since the publish?
			for _, d := range dels {
				if d.key == k && d.at > published[t] && d.at < i {
					return true
				}
			}
		}
		parkedPub[t] = e.label == skiplist.VerifPtInsPub
		parkedLink[t] = e.label == skiplist.VerifPtInsLink
		if e.label == 0 {
			if op == "del" {
				dels = append(dels, done{i, k})
			}
			opIdx[t]++
			published[t] = -1
		}
	}
	return false
}

func smrRun(in *smrInput, tmp string, idx int) (smrResult, string) {
	casePath := filepath.Join(tmp, fmt.Sprintf("smr%d.json", idx))
	bs, _ := json.Marshal(in)
	os.WriteFile(casePath, bs, 0644)
	cmd := []string{"child-smr", "-case", casePath}
	var res smrResult
	cr, fail := runChildRaw(30*time.Second, cmd...)
	if fail != "" {
		return res, fail
	}
	if err := json.Unmarshal(cr, &res); err != nil {
		return res, "panic: bad child output " + lastLines(string(cr), 3)
	}
	return res, ""
}

func init() {
	commands["child-smr"] = func(a runArgs) error { smrChild(a.casep); return nil }
	commands["smr-exh"] = func(a runArgs) error {
		sink := NewSink(a.out, "C04", "", a.seed)
		sink.meta.Rule = "SYSTEMATIC, oracle only, user-managed memory on the guard allocator, one child process per schedule: small duel programs on one same-epoch item (Put / Delete / Delete / GetNode by 2..3 writers); every schedule in which the running writer changes only at operation boundaries, inside Acquire (session loaded, not yet incremented) and between GetNode and DeleteNode is executed (depth-first, capped); oracles as smr"
		tmp, err := os.MkdirTemp("", "vh-smrx-")
		if err != nil {
			return err
		}
		defer os.RemoveAll(tmp)
		top := rand.New(rand.NewSource(a.seed))
		bs := []int{'a'}
		total, n := 0, 0
		for p := 0; p < a.n; p++ {
			base := smrInput{Cmp: 0, Seed: top.Int63(), Points: "finest", Duel: true, Tall: p%2 == 1,
				Setup:  []mvOp{{Op: "neww"}, {Op: "neww"}, {Op: "neww"}, {Op: "put", W: 0, Bs: bs}},
				Switch: []int{0, skiplist.VerifPtAcqLoaded, nitro.VerifPtDelGot}}
			switch p % 3 {
			case 0:
				base.Progs = [][]smrOp{{{Op: "del", Bs: bs}}, {{Op: "del", Bs: bs}}}
			case 1:
				base.Progs = [][]smrOp{{{Op: "del", Bs: bs}}, {{Op: "del", Bs: bs}, {Op: "put", Bs: bs}}, {{Op: "get", Bs: bs}}}
			default:
				base.Progs = [][]smrOp{{{Op: "del", Bs: bs}, {Op: "put", Bs: bs}}, {{Op: "get", Bs: bs}, {Op: "del", Bs: bs}}}
			}
			capN := 90
			if a.tier == "thorough" {
				capN = 400
			}
			runs := Explore(6, capN, func(ch func([]int) int) ([]int, [][]int) {
				// the enumeration hands us a chooser built from a prefix: recover the prefix by probing
				in := base
				in.Choices = explorePrefix(ch)
				res, fail := smrRun(&in, tmp, n)
				n++
				rec := in
				if res.Case != nil {
					rec = *res.Case
				}
				idx := sink.Add(fmt.Sprintf("(* smr-exh %d *)", n), &rec, "smr-exh", res.Preempt >= 1)
				switch {
				case fail == "hang":
					sink.Fail(idx, "the scheduled run did not terminate within 30s", "c04-hang", &rec)
				case fail != "":
					sig := "c04-crash"
					if strings.Contains(fail, "SIGSEGV") || strings.Contains(fail, "fault address") || strings.Contains(fail, "unexpected signal") {
						sig = "c04-uaf"
						if gbs, err := os.ReadFile(filepath.Join(tmp, fmt.Sprintf("smr%d.json.trace", n-1))); err == nil {
							full := in
							full.Switch = nil
							full.Choices = nil
							for _, ln := range strings.Split(string(gbs), "\n") {
								var x, y int
								if k, _ := fmt.Sscanf(ln, "%d %d", &x, &y); k == 2 {
									full.Choices = append(full.Choices, x)
								}
							}
							if smrLateLink(&full, filepath.Join(tmp, fmt.Sprintf("smr%d.json.trace", n-1))) {
								sig = "c04-uaf-late-link"
							}
							rec = full
						}
					}
					sink.Fail(idx, "the process died while running the schedule (an access to freed memory faults under the guard allocator): "+fail, sig, &rec)
				case res.Bad != "":
					sink.Fail(idx, res.Bad, res.Sig, &rec)
				}
				return res.Decisions, res.DecEnabled
			})
			total += runs
		}
		sink.meta.Extra = map[string]interface{}{"programs": a.n, "schedules": total}
		sink.cases = nil
		return sink.Flush()
	}
	commands["smr"] = func(a runArgs) error {
		sink := NewSink(a.out, "C04", "", a.seed)
		sink.meta.Rule = "instances with user-managed memory on the guard allocator (every block its own mmap, PROT_NONE after free, never reused): an initial store over 0..2 earlier epochs, then 2..3 writer goroutines with 1..3 Put/Delete/GetNode over 2..4 keys (same-epoch and cross-epoch deletes, several writers on one key), scheduled at the publish CAS / own-pointer / upper-level link / mark CAS / help-delete CAS and between GetNode and DeleteNode; each case runs in a child process; oracles: no crash (a use-after-free faults), no double free or unknown free, no freed node or item linked at any level (checked without following pointers into freed memory), nothing leaked after Close; non-trivial = at least 2 preemptions and at least one block freed during the schedule"
		tmp, err := os.MkdirTemp("", "vh-smr-")
		if err != nil {
			return err
		}
		defer os.RemoveAll(tmp)
		run := func(in *smrInput, i int) {
			res, fail := smrRun(in, tmp, i)
			// keep the choices the child made, for replay
			if res.Case != nil {
				*in = *res.Case
			} else if len(res.Choices) > 0 {
				in.Choices = res.Choices
			}
			idx := sink.Add(fmt.Sprintf("(* smr %d *)", in.Seed), in, "smr-"+in.Points, res.Preempt >= 2 && res.Frees >= 1)
			switch {
			case fail == "hang":
				sink.Fail(idx, "the scheduled run did not terminate within 30s", "c04-hang", in)
			case fail != "":
				sig := "c04-crash"
				if strings.Contains(fail, "SIGSEGV") || strings.Contains(fail, "fault address") || strings.Contains(fail, "unexpected signal") {
					sig = "c04-uaf"
					if gbs, err := os.ReadFile(filepath.Join(tmp, fmt.Sprintf("smr%d.json.gen", i))); err == nil {
						var full smrInput
						if json.Unmarshal(gbs, &full) == nil && len(full.Progs) > 0 {
							full.Choices = nil
							*in = full
						}
					}
					// the schedule up to the fault, so that the replay is this very run
					if tbs, err := os.ReadFile(filepath.Join(tmp, fmt.Sprintf("smr%d.json.trace", i))); err == nil && len(in.Choices) == 0 {
						for _, ln := range strings.Split(string(tbs), "\n") {
							var a, b int
							if n, _ := fmt.Sscanf(ln, "%d %d", &a, &b); n == 2 {
								in.Choices = append(in.Choices, a)
							}
						}
					}
					if smrLateLink(in, filepath.Join(tmp, fmt.Sprintf("smr%d.json.trace", i))) {
						sig = "c04-uaf-late-link"
					}
				}
				sink.Fail(idx, "the process died while running the schedule (an access to freed memory faults under the guard allocator): "+fail, sig, in)
			case res.Bad != "":
				sink.Fail(idx, res.Bad, res.Sig, in)
			}
		}
		if a.replay != "" {
			bs, err := os.ReadFile(a.replay)
			if err != nil {
				return err
			}
			var rp struct {
				Case smrInput `json:"case"`
			}
			if err := json.Unmarshal(bs, &rp); err != nil {
				return err
			}
			run(&rp.Case, 0)
			sink.cases = nil
			return sink.Flush()
		}
		top := rand.New(rand.NewSource(a.seed))
		for i := 0; i < a.n; i++ {
			in := smrGen(top)
			run(in, i)
		}
		sink.cases = nil
		return sink.Flush()
	}
}
