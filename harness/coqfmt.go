package main

import (
	"encoding/json"
	"fmt"
	"os"
	"path/filepath"
	"sort"
	"strings"
)

// ---- Coq term emitters -------------------------------------------------

func cN(v uint64) string { return fmt.Sprintf("%d", v) }
func cZ(v int64) string {
	if v < 0 {
		return fmt.Sprintf("(%d)%%Z", v)
	}
	return fmt.Sprintf("%d%%Z", v)
}
func cBool(b bool) string {
	if b {
		return "true"
	}
	return "false"
}
func cNat(v int) string { return fmt.Sprintf("%d%%nat", v) }

func cList(xs []string) string { return "[" + strings.Join(xs, "; ") + "]" }

// run-length encoded byte string: list (N*N) of (count, byte)
func cRLE(bs []byte) string {
	var parts []string
	for i := 0; i < len(bs); {
		j := i
		for j < len(bs) && bs[j] == bs[i] {
			j++
		}
		parts = append(parts, fmt.Sprintf("(%d,%d)", j-i, bs[i]))
		i = j
	}
	return cList(parts)
}

func cRLEs(items [][]byte) string {
	var parts []string
	for _, it := range items {
		parts = append(parts, cRLE(it))
	}
	return cList(parts)
}

// plain byte list: list N
func cBytes(bs []byte) string {
	parts := make([]string, len(bs))
	for i, b := range bs {
		parts[i] = fmt.Sprintf("%d", b)
	}
	return cList(parts)
}

func cNs(xs []uint64) string {
	parts := make([]string, len(xs))
	for i, b := range xs {
		parts[i] = fmt.Sprintf("%d", b)
	}
	return cList(parts)
}

func cZs(xs []int64) string {
	parts := make([]string, len(xs))
	for i, b := range xs {
		parts[i] = cZ(b)
	}
	return cList(parts)
}

func cOptN(ok bool, v uint64) string {
	if !ok {
		return "None"
	}
	return fmt.Sprintf("(Some %d)", v)
}

// ---- case file / meta writer ------------------------------------------

type OracleFailure struct {
	Index  int         `json:"index"`
	What   string      `json:"what"`
	Replay interface{} `json:"replay"`
	// Signature is matched against known_findings.json
	Signature string `json:"signature"`
}

type Meta struct {
	Property       string                 `json:"property"`
	Seed           int64                  `json:"seed"`
	Evaluations    int                    `json:"evaluations"`
	Nontrivial     int                    `json:"distinct_nontrivial"`
	Rule           string                 `json:"rule"`
	Samples        []interface{}          `json:"samples"`
	Distribution   map[string]int         `json:"distribution"`
	OracleFailures []OracleFailure        `json:"oracle_failures"`
	Replays        []interface{}          `json:"replays"` // per case replay record (index aligned)
	Extra          map[string]interface{} `json:"extra,omitempty"`
	Shards         []string               `json:"shards"`
	PerFile        int                    `json:"per_file"`
}

type CaseSink struct {
	dir     string
	tie     string // Coq module of the tie, e.g. Tie.C19Tie
	cases   []string
	meta    Meta
	seen    map[string]bool
	perFile int
	scope   string
}

func NewSink(dir, prop, tie string, seed int64) *CaseSink {
	os.MkdirAll(dir, 0755)
	return &CaseSink{dir: dir, tie: tie, seen: map[string]bool{}, perFile: 400, scope: "N_scope",
		meta: Meta{Property: prop, Seed: seed, Distribution: map[string]int{}}}
}

// Add registers one case: its Coq term, a JSON-able replay record, a kind for the
// distribution table and whether it is non-trivial by the property's rule.
func (s *CaseSink) Add(coq string, replay interface{}, kind string, nontrivial bool) int {
	idx := len(s.cases)
	s.cases = append(s.cases, coq)
	s.meta.Replays = append(s.meta.Replays, replay)
	s.meta.Distribution[kind]++
	s.meta.Evaluations++
	if nontrivial && !s.seen[coq] {
		s.seen[coq] = true
		s.meta.Nontrivial++
	}
	if len(s.meta.Samples) < 3 && nontrivial {
		s.meta.Samples = append(s.meta.Samples, replay)
	}
	return idx
}

// Begin records the case about to run, so that a process crash can be attributed to it.
func (s *CaseSink) Begin(replay interface{}) {
	bs, _ := json.Marshal(replay)
	os.WriteFile(filepath.Join(s.dir, "current.json"), bs, 0644)
}

// Done marks a clean end of the run.
func (s *CaseSink) Done() { os.Remove(filepath.Join(s.dir, "current.json")) }

func (s *CaseSink) Count(kind string, n int) { s.meta.Distribution[kind] += n }

func (s *CaseSink) Fail(idx int, what, sig string, replay interface{}) {
	if len(what) > 1500 {
		what = what[:1500] + "..."
	}
	s.meta.OracleFailures = append(s.meta.OracleFailures, OracleFailure{Index: idx, What: what, Replay: replay, Signature: sig})
}

func (s *CaseSink) Flush() error {
	// shard the cases into several .v files so that coqc runs can go in parallel
	n := len(s.cases)
	shard := 0
	for i := 0; i < n || (n == 0 && shard == 0); i += s.perFile {
		j := i + s.perFile
		if j > n {
			j = n
		}
		name := fmt.Sprintf("cases_%d.v", shard)
		var sb strings.Builder
		sb.WriteString("From NV Require Import Base.Bytes Base.TieBase " + s.tie + ".\n")
		sb.WriteString("Open Scope " + s.scope + ".\n")
		fmt.Fprintf(&sb, "Definition base : nat := %d%%nat.\n", i)
		sb.WriteString("Definition cases : list case := [\n")
		for k := i; k < j; k++ {
			sb.WriteString("  ")
			sb.WriteString(s.cases[k])
			if k+1 < j {
				sb.WriteString(";")
			}
			sb.WriteString("\n")
		}
		sb.WriteString("].\n")
		sb.WriteString("Definition M := Eval vm_compute in mismatches check cases.\nPrint M.\n")
		if err := os.WriteFile(filepath.Join(s.dir, name), []byte(sb.String()), 0644); err != nil {
			return err
		}
		s.meta.Shards = append(s.meta.Shards, name)
		shard++
		if n == 0 {
			break
		}
	}
	s.meta.PerFile = s.perFile
	bs, err := json.Marshal(&s.meta)
	if err != nil {
		return err
	}
	s.Done()
	return os.WriteFile(filepath.Join(s.dir, "meta.json"), bs, 0644)
}

func sortedKeys(m map[string]int) []string {
	var ks []string
	for k := range m {
		ks = append(ks, k)
	}
	sort.Strings(ks)
	return ks
}
