package main

import (
	"encoding/json"
	"fmt"
	"math/rand"
	"os"
	"unsafe"

	"github.com/couchbase/nitro/skiplist"
)

// C16 / C17: the access barrier used directly, goroutines under the deterministic scheduler.

type abOp struct {
	Op string `json:"op"` // acq rel flush
	K  int    `json:"k,omitempty"`
}

type abInput struct {
	Progs   [][]abOp `json:"progs"`
	Choices []int    `json:"choices,omitempty"`
	Sticky  int      `json:"sticky"`
	Seed    int64    `json:"seed"`
	// the destructor callback takes time: it is a scheduling point of its own (harness label 98) between
	// its start and its return; another destructor must not start meanwhile (oracle-only flavour)
	DestrPark bool `json:"destr_park,omitempty"`
}

const abPtInDestructor = 98

func abGen(r *rand.Rand, live bool) *abInput {
	in := &abInput{Sticky: []int{0, 20, 60}[r.Intn(3)], Seed: r.Int63()}
	nt := 2 + r.Intn(3)
	if live {
		in.Sticky = []int{0, 10, 30}[r.Intn(3)]
	}
	for t := 0; t < nt; t++ {
		var prog []abOp
		held := 0
		m := 1 + r.Intn(5)
		for k := 0; k < m; k++ {
			x := r.Intn(100)
			if live && t >= nt-2 && x < 60 {
				x = 90 // the last two threads mostly flush: sessions terminating close together
			}
			switch {
			case x < 35:
				prog = append(prog, abOp{Op: "acq"})
				held++
			case x < 70 && held > 0:
				prog = append(prog, abOp{Op: "rel", K: r.Intn(held)})
				held--
			case x < 70:
				prog = append(prog, abOp{Op: "acq"})
				held++
			default:
				prog = append(prog, abOp{Op: "flush"})
			}
		}
		// most programs release what they hold at the end
		if live || r.Intn(4) > 0 {
			for ; held > 0; held-- {
				prog = append(prog, abOp{Op: "rel", K: 0})
			}
		}
		in.Progs = append(in.Progs, prog)
	}
	return in
}

var abChooserOverride func([]int) int
var abLastChoices []int
var abLastEnabled [][]int

func abRun(in *abInput, sink *CaseSink) {
	arena := NewArena()
	defer arena.Release()
	var destr [][2]int // (flush number by callback order is implicit), entries: (ref id)
	var destrRefs []int
	refIDs := make([]int, 64)
	for i := range refIDs {
		refIDs[i] = i
	}
	cfg := skiplist.DefaultConfig()
	cfg.UseMemoryMgmt = true
	cfg.Malloc = arena.Malloc
	cfg.Free = arena.Free
	nt := len(in.Progs)
	held := make([][]*skiplist.BarrierSession, nt)
	sessID := map[*skiplist.BarrierSession]int{}
	var oracleBad, oracleSig string
	flushRefs := []int{} // ref id of flush number k+1 (by pointer-swap order)
	inDestr := 0 // flush number whose destructor has started and not yet returned
	var sch *Sched
	cfg.BarrierDestructor = func(ref unsafe.Pointer) {
		id := *(*int)(ref)
		if in.DestrPark {
			if inDestr != 0 && oracleBad == "" {
				oracleBad = fmt.Sprintf("destructor of flush %d was started while the destructor of flush %d had not returned (destruction is neither ordered nor exclusive)", id, inDestr)
				oracleSig = "c16-destructor-overlap"
			}
			inDestr = id
			defer func() {
				sch.Hook(abPtInDestructor)
				inDestr = 0
			}()
		}
		destrRefs = append(destrRefs, id)
		k := len(destrRefs) // this must be the destructor of flush number k
		if k > len(flushRefs) || flushRefs[k-1] != id {
			if oracleBad == "" {
				oracleBad = fmt.Sprintf("destructor call #%d received object %d; flushes so far (in order) attached %v", k, id, flushRefs)
				oracleSig = "c16-order"
			}
			return
		}
		// no thread may hold a token acquired before flush k: sessions 0..k-1 are the ones flushed so far
		for t := range held {
			for _, bs := range held[t] {
				if sid, ok := sessID[bs]; ok && sid <= k-1 && oracleBad == "" {
					oracleBad = fmt.Sprintf("destructor of flush %d ran while thread %d still holds a token of session %d acquired before that flush", k, t, sid)
					oracleSig = "c16-early-destructor"
				}
			}
		}
	}
	_ = destr
	sl := skiplist.NewWithConfig(cfg)
	ab := sl.GetAccesBarrier()
	sessID[ab.VerifSession()] = 0
	sch = NewSched(nt, skiplist.VerifPtAcqLoaded, skiplist.VerifPtAcqBackoff, skiplist.VerifPtRelZero, skiplist.VerifPtRelLatched, skiplist.VerifPtRelQueued,
		skiplist.VerifPtCleanLoop, skiplist.VerifPtCleanEnd, skiplist.VerifPtCleanReset, skiplist.VerifPtFlushLoaded,
		skiplist.VerifPtFlushSwapped, skiplist.VerifPtFlushAdded)
	if in.DestrPark {
		sch.mask[abPtInDestructor] = true
	}
	skiplist.VerifYieldHook = sch.Hook
	defer func() { skiplist.VerifYieldHook = nil }()
	results := make([][]string, nt)
	nextOp := make([]int, nt)
	flushing := make([]bool, nt)
	nflush := 0
	sch.Blocked = func(tid, point int) bool {
		if point != ptOpStart || nextOp[tid] >= len(in.Progs[tid]) || in.Progs[tid][nextOp[tid]].Op != "flush" {
			return false
		}
		for _, f := range flushing {
			if f {
				return true
			}
		}
		return false
	}
	sch.Observe = func() int { return len(destrRefs) }
	sch.OnStep = func(tid, label int) {
		if label == skiplist.VerifPtFlushSwapped {
			bs := ab.VerifSession()
			if _, ok := sessID[bs]; !ok {
				sessID[bs] = len(sessID)
			}
		}
	}
	for t := 0; t < nt; t++ {
		t := t
		sch.Go(t, func() {
			defer func() {
				if e := recover(); e != nil {
					results[t] = append(results[t], "RPanic")
					if oracleBad == "" {
						oracleBad = fmt.Sprintf("thread %d panicked: %v", t, e)
						oracleSig = "c16-panic"
					}
					flushing[t] = false
				}
			}()
			for i, op := range in.Progs[t] {
				nextOp[t] = i
				sch.OpStart(t)
				switch op.Op {
				case "acq":
					bs := ab.Acquire()
					held[t] = append([]*skiplist.BarrierSession{bs}, held[t]...)
					results[t] = append(results[t], fmt.Sprintf("RTok %d", sessID[bs]))
				case "rel":
					if op.K >= len(held[t]) {
						results[t] = append(results[t], "RMisuse")
						continue
					}
					bs := held[t][op.K]
					held[t] = append(append([]*skiplist.BarrierSession{}, held[t][:op.K]...), held[t][op.K+1:]...)
					ab.Release(bs)
					results[t] = append(results[t], "RUnit")
				case "flush":
					flushing[t] = true
					nflush++
					id := nflush
					flushRefs = append(flushRefs, id) // provisional: order of Lock acquisition = order of pointer swaps (serialised by the mutex)
					ab.FlushSession(unsafe.Pointer(&refIDs[id]))
					flushing[t] = false
					results[t] = append(results[t], "RUnit")
				}
				nextOp[t] = i + 1
			}
		})
	}
	r := rand.New(rand.NewSource(in.Seed))
	var chooser func([]int) int
	if abChooserOverride != nil {
		chooser = abChooserOverride
	} else if len(in.Choices) > 0 {
		chooser = replayChooser(in.Choices)
	} else {
		chooser = randomChooser(r, in.Sticky)
	}
	sch.Run(nt, chooser, 600)
	finished := sch.AllFinished()
	if !finished {
		sch.Abandon()
	}
	in.Choices = nil
	var tr []string
	for i, st := range sch.Trace {
		in.Choices = append(in.Choices, st[0])
		tr = append(tr, fmt.Sprintf("(%d, %d, %d)", st[0], st[1], sch.Obs[i]))
	}
	abLastChoices = append([]int(nil), in.Choices...)
	abLastEnabled = sch.Enabled
	// observables at the end of the scheduled part
	_, active, free, _, _, _ := ab.VerifState()
	var q []string
	for _, sq := range ab.VerifQueue() {
		q = append(q, fmt.Sprintf("%d", sq))
	}
	var progs, res, ds []string
	fl := 0
	for _, p := range in.Progs {
		var ops []string
		for _, o := range p {
			switch o.Op {
			case "acq":
				ops = append(ops, "OAcquire")
			case "rel":
				ops = append(ops, fmt.Sprintf("ORelease %d", o.K))
			default:
				fl++
				ops = append(ops, "OFlush 0") // ref filled below
			}
		}
		progs = append(progs, cList(ops))
	}
	// refs: flush ops are numbered in Lock order at run time; the model needs the ref in the program
	// text, so rewrite the programs with the refs actually used (thread-local order is known)
	progs = nil
	{
		// recover per-thread refs: replay the trace: a thread's k-th flush began at its k-th FlushLoaded label
		perThread := make([][]int, nt)
		cnt := 0
		for _, st := range sch.Trace {
			if st[1] == skiplist.VerifPtFlushLoaded {
				cnt++
				perThread[st[0]] = append(perThread[st[0]], cnt)
			}
		}
		for t, p := range in.Progs {
			var ops []string
			k := 0
			for _, o := range p {
				switch o.Op {
				case "acq":
					ops = append(ops, "OAcquire")
				case "rel":
					ops = append(ops, fmt.Sprintf("ORelease %d", o.K))
				default:
					ref := 0
					if k < len(perThread[t]) {
						ref = perThread[t][k]
					}
					k++
					ops = append(ops, fmt.Sprintf("OFlush %d", ref))
				}
			}
			progs = append(progs, cList(ops))
		}
	}
	for _, rs := range results {
		res = append(res, cList(rs))
	}
	for i, id := range destrRefs {
		ds = append(ds, fmt.Sprintf("(%d, %d)", i+1, id))
	}
	coq := fmt.Sprintf("CBarrier true %s %s %s %s %s %d %d", cList(progs), cList(tr), cList(res), cList(ds), cList(q), free, active)
	// C17 oracle: release every leftover token, then nothing may be pending
	skiplist.VerifYieldHook = nil
	if finished && oracleBad == "" {
		for t := range held {
			for len(held[t]) > 0 {
				bs := held[t][0]
				held[t] = held[t][1:]
				ab.Release(bs)
			}
		}
		if len(destrRefs) != nflush || len(ab.VerifQueue()) != 0 {
			oracleBad = fmt.Sprintf("all accessors released and no call in progress, but only %d of %d flushed sessions were destructed (%d still queued)", len(destrRefs), nflush, len(ab.VerifQueue()))
			oracleSig = "c17-pending"
		}
		seen := map[int]int{}
		for _, id := range destrRefs {
			seen[id]++
			if seen[id] > 1 && oracleBad == "" {
				oracleBad = fmt.Sprintf("destructor ran twice for flush %d", id)
				oracleSig = "c16-twice"
			}
		}
	}
	if sch.stall {
		oracleBad = "a scheduled goroutine neither reached a yield point nor finished within 20s"
		oracleSig = "c16-stall"
	}
	windows := 0
	for _, st := range sch.Trace {
		if st[1] >= skiplist.VerifPtRelZero && st[1] <= skiplist.VerifPtCleanReset {
			windows++
		}
	}
	idx := sink.Add(coq, in, fmt.Sprintf("threads%d-flushes%d", nt, nflush), nflush >= 1 && windows >= 3)
	if oracleBad != "" {
		sink.Fail(idx, oracleBad, oracleSig, in)
	}
	sl.FreeNode(sl.HeadNode(), &sl.Stats)
	sl.FreeNode(sl.TailNode(), &sl.Stats)
}

func init() {
	commands["barrier"] = abCommand("C16", false)
	commands["barrier-live"] = abCommand("C17", true)
	commands["barrier-destr"] = func(a runArgs) error {
		sink := NewSink(a.out, "C16", "", a.seed)
		sink.meta.Rule = "oracle only: the programs and schedules of the barrier run, with a destructor callback that takes time (a scheduling point of its own between its start and its return): no destructor may start while another one has not returned, destructors run in flush order, never while an earlier accessor holds its token"
		if a.replay != "" {
			bs, err := os.ReadFile(a.replay)
			if err != nil {
				return err
			}
			var rp struct {
				Case abInput `json:"case"`
			}
			if err := json.Unmarshal(bs, &rp); err != nil {
				return err
			}
			rp.Case.DestrPark = true
			abRun(&rp.Case, sink)
			sink.cases = nil
			return sink.Flush()
		}
		top := rand.New(rand.NewSource(a.seed))
		for i := 0; i < a.n; i++ {
			in := abGen(top, i%2 == 0)
			in.DestrPark = true
			sink.Begin(in)
			abRun(in, sink)
		}
		sink.cases = nil
		return sink.Flush()
	}
	commands["barrier-exh"] = abExhCommand("C16", false)
	commands["barrier-live-exh"] = abExhCommand("C17", true)
}

func abExhCommand(prop string, live bool) func(a runArgs) error {
	return func(a runArgs) error {
		sink := NewSink(a.out, prop, "Tie.BarrierTie", a.seed)
		sink.scope = "nat_scope"
		sink.perFile = 150
		sink.meta.Rule = "SYSTEMATIC: for each of a few small programs (2..3 goroutines, <= 3 Acquire/Release/FlushSession ops each) every schedule with at most 2 preemptions is executed (depth-first enumeration over the enabled threads at every step; capped per program) and replayed on the model; non-trivial = at least one flush and three steps inside Release/doCleanup windows"
		top := rand.New(rand.NewSource(a.seed))
		total := 0
		for p := 0; p < a.n; p++ {
			base := abGen(top, live)
			if len(base.Progs) > 3 {
				base.Progs = base.Progs[:3]
			}
			for i := range base.Progs {
				if len(base.Progs[i]) > 3 {
					// keep programs well-formed: cut, then drop releases of tokens that no longer exist
					held := 0
					var np []abOp
					for _, o := range base.Progs[i][:3] {
						switch o.Op {
						case "acq":
							held++
							np = append(np, o)
						case "rel":
							if held > 0 {
								if o.K >= held {
									o.K = 0
								}
								held--
								np = append(np, o)
							}
						default:
							np = append(np, o)
						}
					}
					base.Progs[i] = np
				}
			}
			runs := Explore(2, 1500, func(ch func([]int) int) ([]int, [][]int) {
				in := *base
				in.Choices = nil
				abChooserOverride = ch
				abRun(&in, sink)
				abChooserOverride = nil
				return abLastChoices, abLastEnabled
			})
			total += runs
		}
		sink.meta.Extra = map[string]interface{}{"programs": a.n, "schedules": total}
		return sink.Flush()
	}
}

func abCommand(prop string, live bool) func(a runArgs) error {
	return func(a runArgs) error {
		sink := NewSink(a.out, prop, "Tie.BarrierTie", a.seed)
		sink.scope = "nat_scope"
		sink.perFile = 150
		if live {
			sink.meta.Rule = "liveness flavour: every program releases all its tokens, the last two goroutines mostly flush (sessions terminating at nearly the same time), low stickiness; at quiescence the destructor must have run for every flush and the queue must be empty; "
		}
		sink.meta.Rule += "2..4 goroutines with programs of 1..5 Acquire/Release(k-th held token)/FlushSession ops (nested holders, flush while holding), random schedules (stickiness 0/20/60%) under the deterministic scheduler parking at the ten barrier yield points; after every step the number of destructor calls so far is compared with the model; non-trivial = at least one flush and three steps inside Release/doCleanup windows; distinct by Coq term"
		if a.replay != "" {
			bs, err := os.ReadFile(a.replay)
			if err != nil {
				return err
			}
			var rp struct {
				Case abInput `json:"case"`
			}
			if err := json.Unmarshal(bs, &rp); err != nil {
				return err
			}
			abRun(&rp.Case, sink)
			return sink.Flush()
		}
		top := rand.New(rand.NewSource(a.seed))
		for i := 0; i < a.n; i++ {
			in := abGen(top, live)
			sink.Begin(in)
			abRun(in, sink)
		}
		return sink.Flush()
	}
}
