package main

import (
	"fmt"
	"math/rand"
	"strconv"
	"sync"
	"time"

	"github.com/couchbase/nitro"
	"github.com/couchbase/nitro/skiplist"
)

// Free-running statistics stress (oracle only, no model; C14): the shared statistics of a skiplist are
// updated from many goroutines at once (partial per-goroutine statistics folded in with Merge, the way
// nitro.go's writers, collection workers and free workers do it). At quiescence every counter must
// equal what a walk of the structure measures; an update that is lost once stays lost, so the oracle
// waits for equality (up to 20 s) and reports only a difference that never goes away.
type statIn struct {
	Seed    int64 `json:"seed"`
	Kind    int   `json:"kind"` // 0: skiplist + Merge after every operation, 1: Nitro collection workers
	Workers int   `json:"workers"`
	N       int   `json:"n"`
	MM      bool  `json:"mm"`
}

func statWalk(sl *skiplist.Skiplist) (mem int64, cnt int, perLevel map[int]int64) {
	perLevel = map[int]int64{}
	n, _ := sl.HeadNode().VerifNext(0)
	for n != sl.TailNode() && n != nil {
		next, del := n.VerifNext(0)
		if !del {
			mem += int64(sl.Size(n))
			cnt++
			perLevel[n.Level()]++
		}
		n = next
	}
	return
}

func runStatSkip(in *statIn) (string, int) {
	cfg := skiplist.DefaultConfig()
	var arena *Arena
	if in.MM {
		arena = NewArena()
		cfg.UseMemoryMgmt = true
		cfg.Malloc = arena.Malloc
		cfg.Free = arena.Free
	}
	sl := skiplist.NewWithConfig(cfg)
	var wg sync.WaitGroup
	for w := 0; w < in.Workers; w++ {
		wg.Add(1)
		go func(w int) {
			defer wg.Done()
			r := rand.New(rand.NewSource(in.Seed + int64(w)))
			var local skiplist.Stats
			local.IsLocal(true)
			buf := sl.MakeBuf()
			var mine []int
			for i := 0; i < in.N; i++ {
				if len(mine) > 0 && r.Intn(4) == 0 {
					j := r.Intn(len(mine))
					sl.Delete(skiplist.NewIntKeyItem(mine[j]), skiplist.CompareInt, buf, &local)
					mine = append(mine[:j], mine[j+1:]...)
				} else {
					k := i*in.Workers + w
					sl.Insert(skiplist.NewIntKeyItem(k), skiplist.CompareInt, buf, &local)
					mine = append(mine, k)
				}
				sl.Stats.Merge(&local)
			}
		}(w)
	}
	wg.Wait()
	mem, cnt, per := statWalk(sl)
	st := sl.GetStats()
	bad := ""
	switch {
	case st.NodeCount != cnt:
		bad = fmt.Sprintf("%d goroutines with partial statistics merged after every operation: node count statistic %d, a walk finds %d nodes", in.Workers, st.NodeCount, cnt)
	case st.Memory != mem || sl.MemoryInUse() != mem:
		bad = fmt.Sprintf("%d goroutines with partial statistics merged after every operation: memory statistic %d (MemoryInUse %d), the nodes of the walk account for %d bytes", in.Workers, st.Memory, sl.MemoryInUse(), mem)
	case st.SoftDeletes != 0:
		bad = fmt.Sprintf("soft_deletes=%d at quiescence", st.SoftDeletes)
	case in.MM && int(st.NodeAllocs-st.NodeFrees) < cnt:
		bad = fmt.Sprintf("node_allocs-node_frees=%d, %d nodes are linked", st.NodeAllocs-st.NodeFrees, cnt)
	}
	if bad == "" {
		for l, c := range per {
			if st.NodeDistribution[l] != c {
				bad = fmt.Sprintf("level distribution[%d]=%d, walk finds %d", l, st.NodeDistribution[l], c)
			}
		}
	}
	if arena != nil {
		arena.Release()
	}
	return bad, cnt
}

func runStatNitro(in *statIn) (string, int) {
	cfg := nitro.DefaultConfig()
	var arena *Arena
	if in.MM {
		arena = NewArena()
		cfg.UseMemoryMgmt(arena.Malloc, arena.Free)
	}
	db := nitro.NewWithConfig(cfg)
	ws := make([]*nitro.Writer, in.Workers)
	for i := range ws {
		ws[i] = db.NewWriter()
	}
	r := rand.New(rand.NewSource(in.Seed))
	key := func(i int) []byte { return []byte(fmt.Sprintf("%08d", i)) }
	var snaps []*nitro.Snapshot
	for i := 0; i < in.N; i++ {
		ws[r.Intn(len(ws))].Put(key(i))
	}
	s, _ := db.NewSnapshot()
	snaps = append(snaps, s)
	// one garbage list per snapshot and writer: the collection workers of all writers merge their
	// partial statistics into the store's at the same time
	for i := 0; i < in.N; i++ {
		ws[r.Intn(len(ws))].Delete(key(i))
		s, _ = db.NewSnapshot()
		snaps = append(snaps, s)
	}
	for _, s := range snaps {
		s.Close()
	}
	bad := ""
	deadline := time.Now().Add(20 * time.Second)
	for {
		st := db.VerifStore()
		mem, cnt, _ := statWalk(st)
		stats := map[string]int64{}
		for _, m := range mvStatRe.FindAllStringSubmatch(db.DumpStats(), -1) {
			v, _ := strconv.ParseInt(m[2], 10, 64)
			stats[m[1]] = v
		}
		bad = ""
		switch {
		case cnt != 0:
			bad = fmt.Sprintf("every item was deleted and every snapshot closed, %d nodes are still linked after 20 s", cnt)
		case stats["node_count"] != 0 || stats["soft_deletes"] != 0:
			bad = fmt.Sprintf("empty store at quiescence: node_count=%d soft_deletes=%d", stats["node_count"], stats["soft_deletes"])
		case stats["memory_used"] != mem || st.MemoryInUse() != mem:
			bad = fmt.Sprintf("empty store at quiescence (%d writers, %d garbage lists collected): memory_used=%d MemoryInUse()=%d, the walk accounts for %d bytes", in.Workers, in.N, stats["memory_used"], st.MemoryInUse(), mem)
		case in.MM && stats["node_allocs"] != stats["node_frees"]:
			bad = fmt.Sprintf("empty store at quiescence: node_allocs=%d node_frees=%d", stats["node_allocs"], stats["node_frees"])
		}
		if bad == "" || time.Now().After(deadline) {
			break
		}
		time.Sleep(2 * time.Millisecond)
	}
	db.Close()
	if arena != nil {
		arena.Release()
	}
	return bad, in.N
}

func init() {
	commands["stats-stress"] = func(a runArgs) error {
		sink := NewSink(a.out, "C14", "", a.seed)
		sink.meta.Rule = "free-running goroutines (oracle only): kind 0 = 4..8 goroutines insert/delete disjoint keys of one skiplist with partial statistics merged after every operation; kind 1 = Nitro with 4..8 writers, one garbage list per snapshot collected by the writers' collection workers in parallel; at quiescence all statistics must equal the walk"
		top := rand.New(rand.NewSource(a.seed))
		var fixed *statIn
		if a.replay != "" {
			fixed = &statIn{}
			if err := loadReplayCase(a.replay, fixed); err != nil {
				return err
			}
			a.n = 1
		}
		for i := 0; i < a.n; i++ {
			in := &statIn{Seed: top.Int63(), Kind: i % 2, Workers: 4 + top.Intn(5), MM: i%4 == 3}
			if in.Kind == 0 {
				in.N = 40000 + top.Intn(40000)
			} else {
				in.N = 4000 + top.Intn(4000)
			}
			if fixed != nil {
				in = fixed
			}
			sink.Begin(in)
			var bad string
			var work int
			if in.Kind == 0 {
				bad, work = runStatSkip(in)
			} else {
				bad, work = runStatNitro(in)
			}
			idx := sink.Add(fmt.Sprintf("(* stats-stress %d *)", in.Seed), in, fmt.Sprintf("stats-kind%d-mm%v-w%d", in.Kind, in.MM, in.Workers), work >= 1000)
			if bad != "" {
				sink.Fail(idx, bad, "c14-stats-parallel", in)
			}
		}
		sink.cases = nil
		return sink.Flush()
	}
}
