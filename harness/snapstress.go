package main

import (
	"fmt"
	"math/rand"
	"runtime"
	"sync/atomic"
	"time"

	"github.com/couchbase/nitro"
)

// Free-running handle stress (oracle only, no model; C08): the last references of a snapshot are
// dropped by goroutines that really run at the same instant (OS-thread-locked, released together by a
// spin barrier), optionally with an Open racing them. Every snapshot must be retired for collection
// exactly once (the yield point behind "the decrement reached zero" is counted), an Open that succeeds after the
// count reached zero shows as a second retirement, and afterwards the collector still makes progress.
type snapStressIn struct {
	Seed    int64 `json:"seed"`
	Millis  int   `json:"millis"`
	Closers int   `json:"closers"`
	Opener  bool  `json:"opener"`
}

func runSnapStress(in *snapStressIn) (string, int) {
	db := nitro.New()
	w := db.NewWriter()
	var retires int64
	nitro.VerifYieldHook = func(p int) {
		if p == nitro.VerifPtCloseDec {
			atomic.AddInt64(&retires, 1)
		}
	}
	defer func() { nitro.VerifYieldHook = nil }()
	var gen, done int64
	var cur atomic.Value
	stop := int64(0)
	nw := in.Closers
	if in.Opener {
		nw++
	}
	for i := 0; i < nw; i++ {
		opener := in.Opener && i == nw-1
		go func() {
			runtime.LockOSThread()
			seen := int64(0)
			for {
				g := atomic.LoadInt64(&gen)
				if g == seen {
					if atomic.LoadInt64(&stop) != 0 {
						return
					}
					continue
				}
				seen = g
				s := cur.Load().(*nitro.Snapshot)
				if opener {
					if s.Open() { // a late success would show as a second retirement by this Close
						s.Close()
					}
				} else {
					s.Close()
				}
				atomic.AddInt64(&done, 1)
			}
		}()
	}
	r := rand.New(rand.NewSource(in.Seed))
	bad := ""
	rounds := 0
	deadline := time.Now().Add(time.Duration(in.Millis) * time.Millisecond)
	for time.Now().Before(deadline) && bad == "" {
		if r.Intn(4) == 0 {
			w.Put([]byte(fmt.Sprintf("k%06d", rounds)))
		}
		s, _ := db.NewSnapshot()
		for i := 1; i < in.Closers; i++ {
			s.Open()
		}
		cur.Store(s)
		atomic.StoreInt64(&done, 0)
		atomic.AddInt64(&gen, 1)
		for atomic.LoadInt64(&done) != int64(nw) {
		}
		rounds++
		if got := atomic.LoadInt64(&retires); got != int64(rounds) {
			bad = fmt.Sprintf("round %d: %d goroutines dropped the %d references of snapshot %d at the same time (opener=%v): it was retired for collection %d times instead of once", rounds, in.Closers, in.Closers, s.VerifSn(), in.Opener, got-int64(rounds-1))
		}
	}
	atomic.StoreInt64(&stop, 1)
	if bad == "" {
		// the collector still makes progress on later snapshots
		for i := 0; i < 5; i++ {
			s, _ := db.NewSnapshot()
			s.Close()
		}
		dl := time.Now().Add(20 * time.Second)
		for db.GetLastGCSn() != db.GetCurrSn()-1 && time.Now().Before(dl) {
			db.GC()
			time.Sleep(time.Millisecond)
		}
		if db.GetLastGCSn() != db.GetCurrSn()-1 {
			bad = fmt.Sprintf("after %d rounds of simultaneous closes the collector is stuck: last collected snapshot %d, newest closed snapshot %d", rounds, db.GetLastGCSn(), db.GetCurrSn()-1)
		}
	}
	db.Close()
	return bad, rounds
}

func init() {
	commands["snap-stress"] = func(a runArgs) error {
		sink := NewSink(a.out, "C08", "", a.seed)
		sink.meta.Rule = "free-running goroutines (oracle only): 2..3 OS-thread-locked goroutines drop the last references of a fresh snapshot at the same instant (spin barrier), in half of the cases with an Open/Close racing them; 250..400 ms of rounds per case; every snapshot must be retired exactly once, the collector catches up afterwards; non-trivial = >= 1000 rounds"
		top := rand.New(rand.NewSource(a.seed))
		var fixed *snapStressIn
		if a.replay != "" {
			fixed = &snapStressIn{}
			if err := loadReplayCase(a.replay, fixed); err != nil {
				return err
			}
			a.n = 1
		}
		for i := 0; i < a.n; i++ {
			in := &snapStressIn{Seed: top.Int63(), Millis: 250 + top.Intn(150), Closers: 2 + i%2, Opener: (i/2)%2 == 1}
			if fixed != nil {
				in = fixed
			}
			sink.Begin(in)
			bad, rounds := runSnapStress(in)
			idx := sink.Add(fmt.Sprintf("(* snap-stress %d *)", in.Seed), in, fmt.Sprintf("snap-stress-c%d-open%v", in.Closers, in.Opener), rounds >= 1000)
			sink.meta.Distribution["snap-stress-rounds"] += rounds
			if bad != "" {
				sink.Fail(idx, bad, "c08-double-retire", in)
			}
		}
		sink.cases = nil
		return sink.Flush()
	}
}
