package main

import (
	"encoding/json"
	"flag"
	"fmt"
	"os"
)

type runArgs struct {
	seed   int64
	n      int
	out    string
	replay string
	tier   string
	// child processes
	dir    string
	cmp    int
	delta  bool
	conc   int
	casep  string
	budget int64
}

var commands = map[string]func(a runArgs) error{}

func main() {
	if len(os.Args) < 2 {
		fmt.Fprintln(os.Stderr, "usage: vh <cmd> [flags]")
		os.Exit(2)
	}
	cmd := os.Args[1]
	fs := flag.NewFlagSet(cmd, flag.ExitOnError)
	var a runArgs
	fs.Int64Var(&a.seed, "seed", 1, "PRNG seed")
	fs.IntVar(&a.n, "n", 100, "number of cases")
	fs.StringVar(&a.out, "out", "", "output directory")
	fs.StringVar(&a.replay, "replay", "", "replay file")
	fs.StringVar(&a.tier, "tier", "quick", "tier")
	fs.StringVar(&a.dir, "dir", "", "directory (child commands)")
	fs.IntVar(&a.cmp, "cmp", 0, "comparator (child commands)")
	fs.BoolVar(&a.delta, "delta", false, "delta interleaving (child commands)")
	fs.IntVar(&a.conc, "conc", 2, "concurrency (child commands)")
	fs.StringVar(&a.casep, "case", "", "case file (child commands)")
	fs.Int64Var(&a.budget, "budget", -1, "file size limit (child-store)")
	fs.Parse(os.Args[2:])
	f, ok := commands[cmd]
	if !ok {
		fmt.Fprintln(os.Stderr, "unknown command", cmd)
		os.Exit(2)
	}
	if err := f(a); err != nil {
		fmt.Fprintln(os.Stderr, "harness error:", err)
		os.Exit(3)
	}
}

// loadReplayCase reads the "case" member of a replay file written by the driver into v.
func loadReplayCase(path string, v interface{}) error {
	bs, err := os.ReadFile(path)
	if err != nil {
		return err
	}
	var rp struct {
		Case json.RawMessage `json:"case"`
	}
	if err := json.Unmarshal(bs, &rp); err != nil {
		return err
	}
	return json.Unmarshal(rp.Case, v)
}
