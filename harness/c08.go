package main

import (
	"encoding/json"
	"fmt"
	"math/rand"
	"os"
	"sort"
	"strings"

	"github.com/couchbase/nitro"
	"github.com/couchbase/nitro/skiplist"
)

// C08 / C06-collector: goroutines Open/Close/GC snapshots under the deterministic scheduler.

type snOp struct {
	Op string `json:"op"` // open close gc
	S  int    `json:"s,omitempty"`
}

type snInput struct {
	N       int      `json:"n"`       // snapshots 1..n
	Owners  []int    `json:"owners"`  // owner thread of the creation reference of snapshot i+1
	Progs   [][]snOp `json:"progs"`
	Choices []int    `json:"choices,omitempty"` // thread chosen at each step (replay)
	Sticky  int      `json:"sticky"`
	Seed    int64    `json:"seed"`
	Fine    bool     `json:"fine,omitempty"` // also park inside the snapshot lists' own skiplist operations (oracle-only runs)
}

func snGen(r *rand.Rand) *snInput {
	in := &snInput{N: 1 + r.Intn(3), Sticky: []int{0, 30, 70}[r.Intn(3)], Seed: r.Int63()}
	nt := 2 + r.Intn(3)
	for s := 0; s < in.N; s++ {
		in.Owners = append(in.Owners, r.Intn(nt))
	}
	for t := 0; t < nt; t++ {
		var prog []snOp
		held := map[int]int{}
		for s := 0; s < in.N; s++ {
			if in.Owners[s] == t {
				held[s+1] = 1
			}
		}
		m := 1 + r.Intn(4)
		for k := 0; k < m; k++ {
			x := r.Intn(100)
			s := 1 + r.Intn(in.N)
			switch {
			case x < 40:
				prog = append(prog, snOp{Op: "open", S: s})
				held[s]++ // optimistic; a Close that turns out to be a misuse is skipped on both sides
			case x < 90:
				// prefer closing something (optimistically) held
				for ss, c := range held {
					if c > 0 && r.Intn(2) == 0 {
						s = ss
					}
				}
				prog = append(prog, snOp{Op: "close", S: s})
				if held[s] > 0 {
					held[s]--
				}
			default:
				prog = append(prog, snOp{Op: "gc"})
			}
		}
		in.Progs = append(in.Progs, prog)
	}
	return in
}

var snChooserOverride func([]int) int
var snLastChoices []int
var snLastEnabled [][]int

func snRun(in *snInput, sink *CaseSink, fixedModel bool) {
	db := nitro.New()
	w := db.NewWriter()
	snaps := map[int]*nitro.Snapshot{}
	for s := 1; s <= in.N; s++ {
		w.Put([]byte{byte('a' + s)})
		if s > 1 {
			w.Delete([]byte{byte('a' + s - 1)})
		}
		sn, _ := db.NewSnapshot()
		snaps[s] = sn
	}
	nt := len(in.Progs)
	sch := NewSched(nt, nitro.VerifPtOpenTested, nitro.VerifPtCloseDec, nitro.VerifPtGCLoop, nitro.VerifPtGCEnd)
	nitro.VerifYieldHook = sch.Hook
	if in.Fine {
		// the live and the retired snapshot lists are skiplists: park before their publish / mark CASes
		sch = NewSched(nt, nitro.VerifPtOpenTested, nitro.VerifPtCloseDec, nitro.VerifPtGCLoop, nitro.VerifPtGCEnd,
			skiplist.VerifPtInsPub, skiplist.VerifPtSdCas, skiplist.VerifPtFPH)
		nitro.VerifYieldHook = sch.Hook
		skiplist.VerifYieldHook = sch.Hook
		defer func() { skiplist.VerifYieldHook = nil }()
	}
	results := make([][]string, nt)
	held := make([]map[int]int, nt)
	lateOpen := ""
	zeroed := map[int]bool{}
	for t := 0; t < nt; t++ {
		held[t] = map[int]int{}
		for s := 0; s < in.N; s++ {
			if in.Owners[s] == t {
				held[t][s+1] = 1
			}
		}
	}
	for t := 0; t < nt; t++ {
		t := t
		sch.Go(t, func() {
			for _, op := range in.Progs[t] {
				sch.OpStart(t)
				switch op.Op {
				case "open":
					ok := snaps[op.S].Open()
					if ok {
						held[t][op.S]++
						if zeroed[op.S] && lateOpen == "" {
							lateOpen = fmt.Sprintf("Open(snapshot %d) by thread %d returned true after the Close that dropped the last reference", op.S, t)
						}
					}
					results[t] = append(results[t], "ROpen "+cBool(ok))
				case "close":
					if held[t][op.S] <= 0 {
						results[t] = append(results[t], "RMisuse")
						continue
					}
					held[t][op.S]--
					snaps[op.S].Close()
					results[t] = append(results[t], "RUnit")
				case "gc":
					db.GC()
					results[t] = append(results[t], "RUnit")
				}
			}
		})
	}
	// the scheduler learns "refcount hit zero" from the CloseDec park
	r := rand.New(rand.NewSource(in.Seed))
	var chooser func([]int) int
	if snChooserOverride != nil {
		chooser = snChooserOverride
	} else if len(in.Choices) > 0 {
		chooser = replayChooser(in.Choices)
	} else {
		chooser = randomChooser(r, in.Sticky)
	}
	origHook := sch.Hook
	nitro.VerifYieldHook = func(p int) {
		origHook(p)
	}
	// track zeroed via trace after the run (labels), but late opens need it online: wrap chooser
	wrapped := func(en []int) int {
		// update zeroed from parked labels: a thread parked at CloseDec has zeroed its snapshot
		return chooser(en)
	}
	ok := sch.Run(nt, wrapped, 400)
	_ = ok
	if !sch.AllFinished() {
		sch.Abandon()
	}
	nitro.VerifYieldHook = nil
	in.Choices = nil
	var tr []string
	for _, st := range sch.Trace {
		in.Choices = append(in.Choices, st[0])
		tr = append(tr, fmt.Sprintf("(%d, %d)", st[0], st[1]))
	}
	snLastChoices = append([]int(nil), in.Choices...)
	snLastEnabled = sch.Enabled
	// observables at the end of the scheduled part
	lastgc := int(db.GetLastGCSn())
	var open, ret []string
	for _, s := range db.GetSnapshots() {
		open = append(open, fmt.Sprintf("%d", s.VerifSn()))
	}
	{
		gs := db.VerifGCSnapshots()
		n, _ := gs.HeadNode().VerifNext(0)
		for n != gs.TailNode() && n != nil {
			next, del := n.VerifNext(0)
			if !del {
				ret = append(ret, fmt.Sprintf("%d", (*nitro.Snapshot)(n.Item()).VerifSn()))
			}
			n = next
		}
	}
	var progs, res, owners []string
	for _, p := range in.Progs {
		var ops []string
		for _, o := range p {
			switch o.Op {
			case "open":
				ops = append(ops, fmt.Sprintf("OOpen %d", o.S))
			case "close":
				ops = append(ops, fmt.Sprintf("OClose %d", o.S))
			default:
				ops = append(ops, "OGC")
			}
		}
		progs = append(progs, cList(ops))
	}
	for _, rs := range results {
		res = append(res, cList(rs))
	}
	for _, o := range in.Owners {
		owners = append(owners, fmt.Sprintf("%d", o))
	}
	coq := fmt.Sprintf("CSnap %s %d %s %s %s %s %d %s %s", cBool(fixedModel), in.N, cList(owners), cList(progs), cList(tr), cList(res), lastgc, cList(open), cList(ret))
	// oracle part 1: late open — recompute from the trace: find for each snapshot the step at which
	// some thread parked at CloseDec (count reached zero) and any later successful Open
	bad := ""
	sig := ""
	{
		// replay the bookkeeping: per thread op index
		opIdx := make([]int, nt)
		resIdx := make([]int, nt)
		inOp := make([]bool, nt)
		zeroAt := map[int]bool{}
		for _, st := range sch.Trace {
			t, lab := st[0], st[1]
			if !inOp[t] {
				inOp[t] = true
			}
			cur := in.Progs[t][opIdx[t]]
			if lab == nitro.VerifPtCloseDec {
				zeroAt[cur.S] = true
			}
			if lab == 0 { // op completed
				rs := results[t][resIdx[t]]
				if cur.Op == "open" && rs == "ROpen true" && zeroAt[cur.S] {
					// the successful increment happened in this very step, after the zero
					bad = fmt.Sprintf("Open(snapshot %d) by thread %d succeeded after the count had reached zero", cur.S, t)
					sig = "c08-late-open"
				}
				opIdx[t]++
				resIdx[t]++
				inOp[t] = false
			}
		}
	}
	// oracle part 2: close all remaining handles, force GC: the collector must get through all snapshots
	for t := 0; t < nt; t++ {
		for s, c := range held[t] {
			for ; c > 0; c-- {
				snaps[s].Close()
			}
		}
	}
	// "the collector can make progress on all later snapshots": no GC() is forced — one more snapshot
	// is created and closed by this (now the only) goroutine; its Close must sweep everything retired
	if last, err := db.NewSnapshot(); err == nil {
		last.Close()
	}
	if bad == "" && sch.AllFinished() {
		if int(db.GetLastGCSn()) != in.N+1 {
			bad = fmt.Sprintf("after every handle was closed, one more snapshot was created and closed without contention: lastGCSn=%d but %d snapshots were created: the collector does not make progress on later snapshots", db.GetLastGCSn(), in.N+1)
			sig = "c08-collector-stuck"
		} else if len(db.GetSnapshots()) != 0 {
			bad = "a fully released snapshot is still in the live snapshot set"
			sig = "c08-live-set"
		}
	}
	if sch.stall {
		bad = "a scheduled goroutine neither reached a yield point nor finished within 20s"
		sig = "c08-stall"
	}
	races := 0
	for _, st := range sch.Trace {
		if st[1] == nitro.VerifPtOpenTested || st[1] == nitro.VerifPtCloseDec {
			races++
		}
	}
	idx := sink.Add(coq, in, fmt.Sprintf("threads%d-snaps%d", nt, in.N), races >= 2)
	if bad != "" {
		sink.Fail(idx, bad, sig, in)
	}
	db.Close()
}

func init() {
	commands["snap-exh"] = func(a runArgs) error {
		sink := NewSink(a.out, "C08", "Tie.SnapTie", a.seed)
		sink.scope = "nat_scope"
		sink.perFile = 200
		sink.meta.Rule = "SYSTEMATIC: for each of a few small programs (2..3 goroutines, <= 2 ops each, 1..2 snapshots) every schedule with at most 2 preemptions is executed (depth-first enumeration over the enabled threads at every step; capped per program) and replayed on the model; non-trivial = at least two steps parked inside Open/Close windows"
		top := rand.New(rand.NewSource(a.seed))
		total := 0
		for p := 0; p < a.n; p++ {
			base := snGen(top)
			if len(base.Progs) > 3 {
				base.Progs = base.Progs[:3]
			}
			for i := range base.Progs {
				if len(base.Progs[i]) > 2 {
					base.Progs[i] = base.Progs[i][:2]
				}
			}
			if base.N > 2 {
				base.N = 2
				base.Owners = base.Owners[:2]
				for i := range base.Progs {
					for j := range base.Progs[i] {
						if base.Progs[i][j].S > 2 {
							base.Progs[i][j].S = 2
						}
					}
				}
			}
			for i := range base.Owners {
				base.Owners[i] %= len(base.Progs)
			}
			runs := Explore(2, 1500, func(ch func([]int) int) ([]int, [][]int) {
				in := *base
				in.Choices = nil
				snChooserOverride = ch
				snRun(&in, sink, true)
				snChooserOverride = nil
				return snLastChoices, snLastEnabled
			})
			total += runs
		}
		sink.meta.Extra = map[string]interface{}{"programs": a.n, "schedules": total}
		return sink.Flush()
	}
	commands["snap-fine"] = func(a runArgs) error {
		sink := NewSink(a.out, "C06", "", a.seed)
		sink.meta.Rule = "ORACLE ONLY: as snap with 3..6 snapshots and 3..4 goroutines closing them in random orders, additionally parking before the publish, mark and help-delete CASes inside the live and retired snapshot lists (skiplists); oracles: no late Open, after all handles are closed and one more snapshot is created and closed the collector has handed over every snapshot"
		top := rand.New(rand.NewSource(a.seed))
		for i := 0; i < a.n; i++ {
			in := snGen(top)
			in.Fine = true
			// more snapshots, mostly closes
			in.N = 3 + top.Intn(4)
			nt := len(in.Progs)
			in.Owners = nil
			for s := 0; s < in.N; s++ {
				in.Owners = append(in.Owners, top.Intn(nt))
			}
			for t := range in.Progs {
				in.Progs[t] = nil
			}
			perm := top.Perm(in.N)
			for _, s := range perm {
				t := in.Owners[s]
				in.Progs[t] = append(in.Progs[t], snOp{Op: "close", S: s + 1})
			}
			sink.Begin(in)
			snRun(in, sink, true)
		}
		sink.cases = nil
		return sink.Flush()
	}
	commands["snap"] = func(a runArgs) error {
		sink := NewSink(a.out, "C08", "Tie.SnapTie", a.seed)
		sink.scope = "nat_scope"
		sink.perFile = 200
		sink.meta.Rule = "2..4 goroutines, 1..3 snapshots, programs of 1..4 Open/Close/GC ops (a thread closes only handles it holds), random schedules with stickiness 0/30/70% under the deterministic scheduler parking at the yield points of Open (between zero test and increment), Close (count reached zero), collectDead (each iteration) and GC (before the flag reset); non-trivial = at least two steps parked inside Open/Close windows; distinct by Coq term"
		if a.replay != "" {
			bs, err := os.ReadFile(a.replay)
			if err != nil {
				return err
			}
			var rp struct {
				Case snInput `json:"case"`
			}
			if err := json.Unmarshal(bs, &rp); err != nil {
				return err
			}
			snRun(&rp.Case, sink, true)
			return sink.Flush()
		}
		top := rand.New(rand.NewSource(a.seed))
		for i := 0; i < a.n; i++ {
			in := snGen(top)
			sink.Begin(in)
			snRun(in, sink, true)
		}
		return sink.Flush()
	}
	_ = sort.Ints
	_ = strings.Join
}
