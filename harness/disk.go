package main

import (
	"encoding/binary"
	"bytes"
	"encoding/hex"
	"encoding/json"
	"fmt"
	"io"
	"math/rand"
	"os"
	"os/exec"
	"os/signal"
	"path/filepath"
	"regexp"
	"sort"
	"strconv"
	"strings"
	"sync"
	"sync/atomic"
	"syscall"
	"time"

	"github.com/couchbase/nitro"
)

// C11 / C12 / C05: backup directories. Loads (and budgeted stores) run in child processes under a
// watchdog so that a panic or a hang is an observable, not the end of the run.

type diskCase struct {
	DB     mvInput `json:"db"`     // history that builds the database (replayed in children)
	Sn     int     `json:"sn"`     // snapshot to back up
	Delta  bool    `json:"delta"`  // UseDeltaInterleaving
	Conc   int     `json:"conc"`   // store / load concurrency
	Fault  string  `json:"fault"`  // description of the damage applied to the stored directory
	Budget int64   `json:"budget,omitempty"`
	Block  int     `json:"block,omitempty"`
	// the fault itself, replayable:
	File   string `json:"file,omitempty"`   // relative path
	Kind   string `json:"kind,omitempty"`   // flip set trunc remove rename-entry crash
	Off    int    `json:"off,omitempty"`
	Val    int    `json:"val,omitempty"`
	Extra  []diskFault `json:"extra,omitempty"` // further faults (several shards at once)
	Crash  int    `json:"crash,omitempty"`  // index of the captured crash image
	Cut    int    `json:"cut,omitempty"`
}

type diskFault struct {
	File string `json:"file"`
	Kind string `json:"kind"`
	Off  int    `json:"off"`
	Val  int    `json:"val"`
}

type childResult struct {
	Ok    bool     `json:"ok"`
	Err   string   `json:"err,omitempty"`
	Items []string `json:"items,omitempty"`
	Count int64    `json:"count"`
	Store string   `json:"store,omitempty"` // result of StoreToDisk in a store child: "nil" or the error
	// close-race children: Close() returned before a backup that went on to succeed; allocator ledger
	CloseEarly bool   `json:"close_early,omitempty"`
	Ledger     string `json:"ledger,omitempty"`
}

func diskConfig(cmp int, delta bool) nitro.Config {
	cfg := nitro.DefaultConfig()
	if cmp == 1 {
		cfg.SetKeyComparator(nitro.CompareKV)
	}
	if delta {
		cfg.UseDeltaInterleaving()
	}
	return cfg
}

// ---- children ---------------------------------------------------------------------------------

func childLoad(dir string, cmp int, delta bool, conc int) {
	db := nitro.NewWithConfig(diskConfig(cmp, delta))
	db.NewWriter()
	snap, err := db.LoadFromDisk(dir, conc, nil)
	var res childResult
	if err != nil {
		res.Err = err.Error()
	} else {
		res.Ok = true
		res.Count = snap.Count()
		it := snap.NewIterator()
		for it.SeekFirst(); it.Valid(); it.Next() {
			res.Items = append(res.Items, hex.EncodeToString(it.Get()))
		}
		it.Close()
	}
	bs, _ := json.Marshal(&res)
	os.Stdout.Write(bs)
}

func childStore(casePath, dir string, budget int64) {
	bs, err := os.ReadFile(casePath)
	if err != nil {
		panic(err)
	}
	var c diskCase
	if err := json.Unmarshal(bs, &c); err != nil {
		panic(err)
	}
	if c.Block > 0 {
		nitro.DiskBlockSize = c.Block
	}
	installCounterHook()
	in := c.DB
	in.Delta = c.Delta
	if budget == -2 {
		childStoreCloseRace(&c, dir)
		return
	}
	e := mvReplay(&in)
	snap := e.snaps[uint32(c.Sn)]
	snap.Open()
	if budget >= 0 {
		signal.Ignore(syscall.SIGXFSZ)
		lim := syscall.Rlimit{Cur: uint64(budget), Max: uint64(budget)}
		if err := syscall.Setrlimit(syscall.RLIMIT_FSIZE, &lim); err != nil {
			panic(err)
		}
	}
	serr := e.db.StoreToDisk(dir, snap, c.Conc, nil)
	var res childResult
	if serr == nil {
		res.Store = "nil"
	} else {
		res.Store = serr.Error()
	}
	out, _ := json.Marshal(&res)
	os.Stdout.Write(out)
}

// childStoreCloseRace: user-managed memory on the guard allocator, delta interleaving. Close() is
// called while StoreToDisk stands in its set-up (blocked on the manifest, which is a FIFO here, after
// it has given up its snapshot reference). Close() must wait for the running backup: if it returns
// first it has freed every block the scan is about to walk (the child then dies with a fault).
func childStoreCloseRace(c *diskCase, dir string) {
	in := c.DB
	in.MM = true
	in.Delta = true
	e := mvReplay(&in)
	snap := e.snaps[uint32(c.Sn)]
	snap.Open()
	// only the backup's own reference stays: Close() waits for every other open handle
	for sn, n := range e.ref.snapRef {
		for ; n > 0; n-- {
			e.snaps[sn].Close()
		}
		e.ref.snapRef[sn] = 0
	}
	os.MkdirAll(dir, 0755)
	fifo := filepath.Join(dir, "nitro.json")
	if err := syscall.Mkfifo(fifo, 0660); err != nil {
		panic(err)
	}
	type tres struct {
		err error
		at  time.Time
	}
	storeDone := make(chan tres, 1)
	go func() {
		err := e.db.StoreToDisk(dir, snap, c.Conc, nil)
		storeDone <- tres{err, time.Now()}
	}()
	time.Sleep(150 * time.Millisecond)
	closeDone := make(chan time.Time, 1)
	go func() {
		e.db.Close()
		closeDone <- time.Now()
	}()
	time.Sleep(150 * time.Millisecond)
	go func() { // release the backup: read the manifest off the FIFO
		if f, err := os.OpenFile(fifo, os.O_RDONLY, 0); err == nil {
			io.Copy(io.Discard, f)
			f.Close()
		}
	}()
	var res childResult
	var st tres
	select {
	case st = <-storeDone:
	case <-time.After(20 * time.Second):
		res.Store = "hang"
	}
	if res.Store == "" {
		if st.err == nil {
			res.Store = "nil"
		} else {
			res.Store = st.err.Error()
		}
		select {
		case ct := <-closeDone:
			res.CloseEarly = st.err == nil && ct.Before(st.at)
		case <-time.After(20 * time.Second):
			res.Ledger = "Close() did not return within 20s after the backup had finished"
		}
	}
	if e.arena != nil && res.Ledger == "" {
		if len(e.arena.BadFrees) > 0 {
			res.Ledger = "allocator misuse: " + strings.Join(e.arena.BadFrees, "; ")
		} else if l := e.arena.Live(); len(l) > 0 && res.Store != "hang" {
			res.Ledger = fmt.Sprintf("%d blocks were never returned after Close()", len(l))
		}
	}
	out, _ := json.Marshal(&res)
	os.Stdout.Write(out)
}

func runChildRaw(timeout time.Duration, args ...string) ([]byte, string) {
	cmd := exec.Command(os.Args[0], args...)
	var out, errb bytes.Buffer
	cmd.Stdout = &out
	cmd.Stderr = &errb
	if err := cmd.Start(); err != nil {
		return nil, "spawn:" + err.Error()
	}
	done := make(chan error, 1)
	go func() { done <- cmd.Wait() }()
	select {
	case err := <-done:
		if err != nil {
			return nil, "panic: " + lastLines(errb.String(), 6)
		}
	case <-time.After(timeout):
		cmd.Process.Kill()
		<-done
		return nil, "hang"
	}
	return out.Bytes(), ""
}

func runChild(timeout time.Duration, args ...string) (childResult, string) {
	raw, fail := runChildRaw(timeout, args...)
	if fail != "" {
		return childResult{}, fail
	}
	var res childResult
	if err := json.Unmarshal(raw, &res); err != nil {
		return childResult{}, "panic: bad child output " + lastLines(string(raw), 4)
	}
	return res, ""
}

func lastLines(s string, n int) string {
	ls := strings.Split(strings.TrimSpace(s), "\n")
	if len(ls) > n {
		ls = ls[:n]
	}
	return strings.Join(ls, " | ")
}

// ---- abstract view of a directory for the model --------------------------------------------------

var shardNameRe = regexp.MustCompile(`^shard-(0|[1-9]\d{0,5})$`)

func presNames(path string) string {
	bs, err := os.ReadFile(path)
	if err != nil {
		return "PMissing"
	}
	var names []string
	if err := json.Unmarshal(bs, &names); err != nil {
		return "PBad"
	}
	var parts []string
	for i, n := range names {
		if m := shardNameRe.FindStringSubmatch(n); m != nil {
			parts = append(parts, m[1])
		} else {
			parts = append(parts, fmt.Sprintf("%d", 900000+i)) // a name no file has
		}
	}
	return "(POk " + cList(parts) + ")"
}

func presCks(path string) string {
	bs, err := os.ReadFile(path)
	if err != nil {
		return "PMissing"
	}
	var cks []uint32
	if err := json.Unmarshal(bs, &cks); err != nil {
		return "PBad"
	}
	var parts []string
	for _, c := range cks {
		parts = append(parts, fmt.Sprintf("%d", c))
	}
	return "(POk " + cList(parts) + ")"
}

func presVersion(path string) string {
	bs, err := os.ReadFile(path)
	if err != nil {
		return "PMissing"
	}
	m := map[string]int{}
	if err := json.Unmarshal(bs, &m); err != nil {
		return "PBad"
	}
	return fmt.Sprintf("(POk %d)", m["version"])
}

func shardFiles(dir string) string {
	ents, _ := os.ReadDir(dir)
	var parts []string
	for _, e := range ents {
		if m := shardNameRe.FindStringSubmatch(e.Name()); m != nil {
			bs, _ := os.ReadFile(filepath.Join(dir, e.Name()))
			k, _ := strconv.Atoi(m[1])
			parts = append(parts, fmt.Sprintf("(%d, %s)", k, cRLE(bs)))
		}
	}
	return cList(parts)
}

func coqLoadCase(cmp int, dir string, delta bool, obs string) string {
	return fmt.Sprintf("CLoad %d %s %s %s %s %s %s %s %s %s", cmp,
		presVersion(filepath.Join(dir, "nitro.json")),
		presNames(filepath.Join(dir, "data", "files.json")), presCks(filepath.Join(dir, "data", "checksums.json")), shardFiles(filepath.Join(dir, "data")),
		presNames(filepath.Join(dir, "delta", "files.json")), presCks(filepath.Join(dir, "delta", "checksums.json")), shardFiles(filepath.Join(dir, "delta")),
		cBool(delta), obs)
}

func copyDir(src, dst string) {
	filepath.Walk(src, func(p string, info os.FileInfo, err error) error {
		if err != nil {
			return nil
		}
		rel, _ := filepath.Rel(src, p)
		if info.IsDir() {
			os.MkdirAll(filepath.Join(dst, rel), 0755)
			return nil
		}
		in, e := os.Open(p)
		if e != nil {
			return nil
		}
		defer in.Close()
		out, e := os.Create(filepath.Join(dst, rel))
		if e != nil {
			return nil
		}
		io.Copy(out, in)
		out.Close()
		return nil
	})
}

func applyFault(dir string, f diskFault) {
	p := filepath.Join(dir, f.File)
	switch f.Kind {
	case "remove":
		os.Remove(p)
	case "trunc":
		os.Truncate(p, int64(f.Off))
	case "flip":
		bs, err := os.ReadFile(p)
		if err == nil && f.Off < len(bs) {
			bs[f.Off] ^= byte(f.Val)
			os.WriteFile(p, bs, 0644)
		}
	case "set":
		bs, err := os.ReadFile(p)
		if err == nil && f.Off < len(bs) {
			bs[f.Off] = byte(f.Val)
			os.WriteFile(p, bs, 0644)
		}
	}
}

// a damaged length prefix may ask the loader for gigabytes: keep the two high bytes of every
// 4-byte prefix zero in faulted shard files (the model sees the same bytes)
func clampShard(dir string, rel string) {
	if !strings.Contains(rel, "shard-") {
		return
	}
	p := filepath.Join(dir, rel)
	bs, err := os.ReadFile(p)
	if err != nil {
		return
	}
	os.WriteFile(p, clampPrefixes(bs, 1), 0644)
}

// deltaChurn returns a hook fragment that, at the first item written by a delta-mode backup, deletes
// half of the snapshot's items, closes every snapshot and lets the collector reclaim them: those items
// then exist only in the delta files.
func deltaChurn(e *mvExec, stored [][]byte) func(p int) {
	fired := false
	var hmu sync.Mutex
	return func(p int) {
		if p != nitro.VerifPtStoreItem {
			return
		}
		hmu.Lock()
		defer hmu.Unlock()
		if fired {
			return
		}
		fired = true
		for i, it := range stored {
			if i%2 == 1 {
				e.apply(mvOp{Op: "del", W: 0, Bs: b2i(it)})
			}
		}
		for s2, c := range e.ref.snapRef {
			for ; c > 0; c-- {
				e.snaps[s2].Close()
				e.ref.snapRef[s2]--
			}
		}
		e.apply(mvOp{Op: "snap"})
		e.apply(mvOp{Op: "close", Sn: int(e.ref.currSn - 1)})
		e.db.GC()
		deadline := time.Now().Add(5 * time.Second)
		for time.Now().Before(deadline) {
			if atomic.LoadInt64(&hookGCSent)-e.base[0] == atomic.LoadInt64(&hookGCDone)-e.base[1] {
				break
			}
			time.Sleep(100 * time.Microsecond)
		}
	}
}

// ---- the C11 run ---------------------------------------------------------------------------------

type diskDB struct {
	c        diskCase
	dir      string   // the pristine stored directory
	stored   [][]byte // expected content
	casePath string
}

func buildDiskDB(r *rand.Rand, tmp string, delta bool, nops int, seqKeys bool) *diskDB {
	installCounterHook()
	in := &mvInput{Mode: "mvcc", Cmp: r.Intn(2), MM: false, Delta: delta}
	e := mvGenerate(r, in, nops, false)
	g := &mvGen{r: r, e: e, nkeys: 8, ops: in.Ops}
	// make sure there is content and an open snapshot
	for i := 0; i < 12; i++ {
		g.do(mvOp{Op: "put", W: 0, Bs: b2i(g.item(r.Intn(30)))})
	}
	if seqKeys {
		// runs of sequential keys of equal length: the XOR of the CRCs of 4 aligned neighbours is 0
		for i := 0; i < 64; i++ {
			bs := []byte(fmt.Sprintf("k%04d", i))
			if in.Cmp == 1 {
				bs = nitro.KVToBytes(bs, []byte("v"))
			}
			g.do(mvOp{Op: "put", W: 0, Bs: b2i(bs)})
		}
	}
	g.do(mvOp{Op: "snap"})
	in.Ops = g.ops
	os_ := g.openSnaps()
	sn := os_[len(os_)-1]
	if r.Intn(3) == 0 {
		sn = os_[r.Intn(len(os_))]
	}
	d := &diskDB{c: diskCase{DB: *in, Sn: int(sn), Delta: delta, Conc: []int{1, 2, 8}[r.Intn(3)]}, dir: filepath.Join(tmp, "store")}
	d.stored = e.ref.snapItm[sn]
	snap := e.snaps[sn]
	if delta {
		// StoreToDisk gives up the snapshot reference at once in this mode. While the scan runs,
		// delete half of the snapshot's items, close every snapshot and let the collector reclaim
		// them: they then exist only in the delta files.
		e.ref.snapRef[sn]--
		prev := nitro.VerifYieldHook
		churn := deltaChurn(e, d.stored)
		nitro.VerifYieldHook = func(p int) {
			prev(p)
			churn(p)
		}
		defer func() { nitro.VerifYieldHook = prev }()
	} else {
		snap.Open()
	}
	if err := e.db.StoreToDisk(d.dir, snap, d.c.Conc, nil); err != nil {
		panic(fmt.Sprintf("StoreToDisk failed on an undamaged run: %v", err))
	}
	e.finish()
	bs, _ := json.Marshal(&d.c)
	d.casePath = filepath.Join(tmp, "case.json")
	os.WriteFile(d.casePath, bs, 0644)
	return d
}

// hugeLength reports whether flipping [bit] of byte [off] of a shard file turns a length prefix into
// more than 16 MiB.
func hugeLength(content []byte, off, bit int) bool {
	for p := 0; p+4 <= len(content); {
		l := int(binary.BigEndian.Uint32(content[p : p+4]))
		if off >= p && off < p+4 {
			mod := append([]byte(nil), content[p:p+4]...)
			mod[off-p] ^= byte(bit)
			return binary.BigEndian.Uint32(mod) > 1<<24
		}
		if l == 0 {
			break
		}
		p += 4 + l
	}
	return false
}

func hexItems(items [][]byte) []string {
	out := make([]string, len(items))
	for i, it := range items {
		out[i] = hex.EncodeToString(it)
	}
	return out
}

type loadObs struct {
	coq, bad, sig string
}

func (d *diskDB) observeLoad(dir string, c diskCase) loadObs {
	res, fail := runChild(20*time.Second, "child-load", "-dir", dir, "-cmp", fmt.Sprint(c.DB.Cmp), "-delta", fmt.Sprint(c.Delta), "-conc", fmt.Sprint(c.Conc))
	obs := ""
	bad, sig := "", ""
	switch {
	case fail == "hang":
		obs = "OHang"
		bad, sig = "LoadFromDisk did not terminate within 20s on a damaged backup ("+c.Fault+")", "c11-hang"
	case fail != "":
		obs = "OPanic"
		bad, sig = "LoadFromDisk crashed on a damaged backup ("+c.Fault+"): "+fail, "c11-panic"
	case !res.Ok:
		obs = "OErr"
	default:
		var items [][]byte
		for _, h := range res.Items {
			b, _ := hex.DecodeString(h)
			items = append(items, b)
		}
		obs = "(OLoaded " + cRLEs(items) + ")"
		if !sameItems(items, d.stored) || int(res.Count) != len(d.stored) {
			bad, sig = fmt.Sprintf("LoadFromDisk returned success with %d items (Count %d) on a damaged backup (%s); the stored snapshot holds %d", len(items), res.Count, c.Fault, len(d.stored)), "c11-silent"
		}
	}
	return loadObs{coqLoadCase(c.DB.Cmp, dir, c.Delta, obs), bad, sig}
}

func (d *diskDB) loadObserve(dir string, sink *CaseSink, c diskCase, kind string, nontrivial bool) {
	o := d.observeLoad(dir, c)
	idx := sink.Add(o.coq, c, kind, nontrivial)
	if o.bad != "" {
		sink.Fail(idx, o.bad, o.sig, c)
	}
}

func diskLoadRun(a runArgs, sink *CaseSink) error {
	tmp, err := os.MkdirTemp("", "vh-disk-")
	if err != nil {
		return err
	}
	defer os.RemoveAll(tmp)
	top := rand.New(rand.NewSource(a.seed))
	ndb := 1 + a.n/400
	perDB := a.n / ndb
	for dbi := 0; dbi < ndb; dbi++ {
		dtmp := filepath.Join(tmp, fmt.Sprintf("db%d", dbi))
		os.MkdirAll(dtmp, 0755)
		d := buildDiskDB(top, dtmp, dbi%2 == 1, 20+top.Intn(40), dbi%2 == 0)
		// enumerate the files
		var files []string
		filepath.Walk(d.dir, func(p string, info os.FileInfo, err error) error {
			if err == nil && !info.IsDir() {
				rel, _ := filepath.Rel(d.dir, p)
				files = append(files, rel)
			}
			return nil
		})
		sort.Strings(files)
		sizes := map[string]int{}
		var nonEmptyShards, manifests []string
		for _, f := range files {
			st, _ := os.Stat(filepath.Join(d.dir, f))
			sizes[f] = int(st.Size())
			if strings.Contains(f, "shard-") {
				if st.Size() > 4 {
					nonEmptyShards = append(nonEmptyShards, f)
				}
			} else {
				manifests = append(manifests, f)
			}
		}
		// the fault plan (stratified)
		var plan []diskCase
		add := func(fault string, fs ...diskFault) {
			c := d.c
			c.Fault = fault
			c.File, c.Kind, c.Off, c.Val = fs[0].File, fs[0].Kind, fs[0].Off, fs[0].Val
			c.Extra = fs[1:]
			plan = append(plan, c)
		}
		add("none", diskFault{File: "nitro.json", Kind: "noop"})
		for _, f := range files {
			add("remove "+f, diskFault{File: f, Kind: "remove"})
		}
		for _, f := range manifests {
			step := 1 + sizes[f]/25
			for off := top.Intn(step); off < sizes[f]; off += step {
				switch top.Intn(4) {
				case 0:
					add(fmt.Sprintf("flip low bit of %s[%d]", f, off), diskFault{f, "flip", off, 1})
				case 1:
					add(fmt.Sprintf("set %s[%d]=0x00", f, off), diskFault{f, "set", off, 0})
				case 2:
					add(fmt.Sprintf("set %s[%d]='5'", f, off), diskFault{f, "set", off, '5'})
				default:
					add(fmt.Sprintf("flip bit of %s[%d]", f, off), diskFault{f, "flip", off, 1 << uint(top.Intn(8))})
				}
				if off%3 == 0 {
					add(fmt.Sprintf("truncate %s at %d", f, off), diskFault{f, "trunc", off, 0})
				}
			}
		}
		for _, f := range nonEmptyShards {
			sz := sizes[f]
			content, _ := os.ReadFile(filepath.Join(d.dir, f))
			for k := 0; k < 10; k++ {
				off := top.Intn(sz)
				bit := 1 << uint(top.Intn(8))
				if hugeLength(content, off, bit) {
					// a length prefix of hundreds of megabytes makes the reader allocate that much before
					// it notices the short file (recorded limit): keep the damage in the low-order bytes
					bit = 1
					if hugeLength(content, off, bit) {
						continue
					}
				}
				add(fmt.Sprintf("flip bit of %s[%d]", f, off), diskFault{f, "flip", off, bit})
				add(fmt.Sprintf("truncate %s at %d", f, top.Intn(sz)), diskFault{f, "trunc", top.Intn(sz), 0})
			}
			add(fmt.Sprintf("truncate %s at %d", f, sz-1), diskFault{f, "trunc", sz - 1, 0})
			add(fmt.Sprintf("truncate %s at 0", f), diskFault{f, "trunc", 0, 0})
			// a length prefix turned into zero (one byte for items shorter than 256 bytes): the reader
			// takes it for the end marker and the rest of the shard would be dropped
			if bs, err := os.ReadFile(filepath.Join(d.dir, f)); err == nil {
				var starts []int
				for off := 0; off+4 <= len(bs); {
					l := int(binary.BigEndian.Uint32(bs[off : off+4]))
					if l == 0 {
						break
					}
					if l < 256 {
						starts = append(starts, off)
					}
					off += 4 + l
				}
				for k := 0; k < 6 && len(starts) > 0; k++ {
					off := starts[top.Intn(len(starts))]
					if k == 0 {
						off = starts[0]
					}
					add(fmt.Sprintf("set %s[%d]=0x00 (length prefix of the record at %d becomes 0)", f, off+3, off), diskFault{f, "set", off + 3, 0})
				}
			}
		}
		// redirect a files.json entry to another shard (a one-byte change of the manifest)
		if bs, err := os.ReadFile(filepath.Join(d.dir, "data", "files.json")); err == nil {
			for k := 0; k < 6; k++ {
				idx := bytes.Index(bs, []byte(fmt.Sprintf("shard-%d\"", top.Intn(10))))
				if idx >= 0 {
					add(fmt.Sprintf("redirect a files.json entry (byte %d)", idx+6), diskFault{"data/files.json", "set", idx + 6, '0' + top.Intn(10)})
				}
			}
		}
		// several shards damaged at once: k = 1, conc, conc+1, all
		for _, k := range []int{1, d.c.Conc, d.c.Conc + 1, len(nonEmptyShards)} {
			if k < 1 || k > len(nonEmptyShards) {
				continue
			}
			var fs []diskFault
			for i := 0; i < k; i++ {
				f := nonEmptyShards[i]
				fs = append(fs, diskFault{f, "trunc", sizes[f] / 2, 0})
			}
			add(fmt.Sprintf("truncate %d shard files at once (load concurrency %d)", k, d.c.Conc), fs...)
		}
		top.Shuffle(len(plan)-1, func(i, j int) { plan[i+1], plan[j+1] = plan[j+1], plan[i+1] })
		if len(plan) > perDB {
			plan = plan[:perDB]
		}
		// run the plan, 12 children in parallel
		var wg sync.WaitGroup
		var mu sync.Mutex
		sem := make(chan struct{}, 12)
		for i, c := range plan {
			wg.Add(1)
			sem <- struct{}{}
			go func(i int, c diskCase) {
				defer wg.Done()
				defer func() { <-sem }()
				fdir := filepath.Join(dtmp, fmt.Sprintf("f%d", i))
				copyDir(d.dir, fdir)
				for _, f := range append([]diskFault{{c.File, c.Kind, c.Off, c.Val}}, c.Extra...) {
					applyFault(fdir, f)
					clampShard(fdir, f.File)
				}
				kind := "fault-" + c.Kind
				if strings.Contains(c.File, "json") {
					kind += "-manifest"
				} else {
					kind += "-shard"
				}
				o := d.observeLoad(fdir, c)
				os.RemoveAll(fdir)
				mu.Lock()
				idx := sink.Add(o.coq, c, kind, c.Kind != "noop")
				if o.bad != "" {
					sink.Fail(idx, o.bad, o.sig, c)
				}
				mu.Unlock()
			}(i, c)
		}
		wg.Wait()
	}
	return nil
}

// replay of one fault case
func diskLoadReplay(c diskCase, sink *CaseSink) error {
	tmp, err := os.MkdirTemp("", "vh-disk-")
	if err != nil {
		return err
	}
	defer os.RemoveAll(tmp)
	installCounterHook()
	in := c.DB
	e := mvReplay(&in)
	snap := e.snaps[uint32(c.Sn)]
	snap.Open()
	dir := filepath.Join(tmp, "store")
	if c.Block > 0 {
		nitro.DiskBlockSize = c.Block
	}
	if err := e.db.StoreToDisk(dir, snap, c.Conc, nil); err != nil {
		return err
	}
	d := &diskDB{c: c, dir: dir, stored: e.ref.snapItm[uint32(c.Sn)]}
	e.finish()
	for _, f := range append([]diskFault{{c.File, c.Kind, c.Off, c.Val}}, c.Extra...) {
		applyFault(dir, f)
		clampShard(dir, f.File)
	}
	d.loadObserve(dir, sink, c, "replay", true)
	return nil
}

// ---- the C12 run: crash images and write budgets ---------------------------------------------------

func diskStoreRun(a runArgs, sink *CaseSink) error {
	tmp, err := os.MkdirTemp("", "vh-store-")
	if err != nil {
		return err
	}
	defer os.RemoveAll(tmp)
	top := rand.New(rand.NewSource(a.seed))
	ndb := 1 + a.n/120
	for dbi := 0; dbi < ndb; dbi++ {
		dtmp := filepath.Join(tmp, fmt.Sprintf("db%d", dbi))
		os.MkdirAll(dtmp, 0755)
		delta := dbi%3 == 2
		// (i) crash images: copy the directory at every file-system mutation boundary
		installCounterHook()
		nitro.DiskBlockSize = []int{64, 256, 4096}[top.Intn(3)]
		block := nitro.DiskBlockSize
		in := &mvInput{Mode: "mvcc", Cmp: top.Intn(2), Delta: delta}
		e := mvGenerate(top, in, 20+top.Intn(30), false)
		g := &mvGen{r: top, e: e, nkeys: 8, ops: in.Ops}
		// every other database has long items, so that data shards are larger than the manifests and a
		// file-size limit can hit one shard's last flush while every other file completes
		tail := 30
		if dbi%2 == 0 {
			tail = 700
		}
		for i := 0; i < 25; i++ {
			g.do(mvOp{Op: "put", W: 0, Bs: b2i(append(g.item(top.Intn(40)), bytes.Repeat([]byte{'x'}, top.Intn(tail))...))})
		}
		g.do(mvOp{Op: "snap"})
		in.Ops = g.ops
		os_ := g.openSnaps()
		sn := os_[len(os_)-1]
		c := diskCase{DB: *in, Sn: int(sn), Delta: delta, Conc: []int{1, 2, 8}[top.Intn(3)], Block: block}
		stored := e.ref.snapItm[sn]
		snap := e.snaps[sn]
		churn := func(int) {}
		if delta {
			e.ref.snapRef[sn]--
			churn = deltaChurn(e, stored)
		} else {
			snap.Open()
		}
		dir := filepath.Join(dtmp, "store")
		var images []string
		var imu sync.Mutex
		items := 0
		prevHook := nitro.VerifYieldHook
		nitro.VerifYieldHook = func(p int) {
			if prevHook != nil {
				prevHook(p)
			}
			churn(p)
			if p == nitro.VerifPtStoreStep || p == nitro.VerifPtStoreItem {
				imu.Lock()
				defer imu.Unlock()
				if p == nitro.VerifPtStoreItem {
					items++
					if items%7 != 0 {
						return
					}
				}
				img := filepath.Join(dtmp, fmt.Sprintf("crash%d", len(images)))
				copyDir(dir, img)
				images = append(images, img)
			}
		}
		serr := e.db.StoreToDisk(dir, snap, c.Conc, nil)
		nitro.VerifYieldHook = prevHook
		if serr != nil {
			return fmt.Errorf("StoreToDisk failed without a fault: %v", serr)
		}
		e.finish()
		bs, _ := json.Marshal(&c)
		casePath := filepath.Join(dtmp, "case.json")
		os.WriteFile(casePath, bs, 0644)
		d := &diskDB{c: c, dir: dir, stored: stored, casePath: casePath}
		// every captured image, and a version of it with one file cut at a random offset
		for i, img := range images {
			cc := c
			cc.Crash = i
			cc.Fault = fmt.Sprintf("process stopped at file-system boundary %d of %d", i, len(images))
			d.crashObserve(img, sink, cc, "crash-boundary")
			if top.Intn(2) == 0 {
				var fl []string
				filepath.Walk(img, func(p string, info os.FileInfo, err error) error {
					if err == nil && !info.IsDir() && info.Size() > 0 {
						fl = append(fl, p)
					}
					return nil
				})
				if len(fl) > 0 {
					// only the file being written last can be torn: cut the most recently modified one
					sort.Slice(fl, func(a, b int) bool {
						sa, _ := os.Stat(fl[a])
						sb, _ := os.Stat(fl[b])
						return sa.ModTime().After(sb.ModTime())
					})
					st, _ := os.Stat(fl[0])
					cut := top.Intn(int(st.Size()))
					os.Truncate(fl[0], int64(cut))
					cc.Cut = cut
					cc.Fault += fmt.Sprintf(", last written file torn at %d", cut)
					d.crashObserve(img, sink, cc, "crash-torn")
				}
			}
			os.RemoveAll(img)
		}
		// (ii) write budgets: RLIMIT_FSIZE in a child; success must mean restorable
		total := 0
		sizes := map[int]bool{}
		filepath.Walk(dir, func(p string, info os.FileInfo, err error) error {
			if err == nil && !info.IsDir() {
				sizes[int(info.Size())] = true
				if int(info.Size()) > total {
					total = int(info.Size())
				}
			}
			return nil
		})
		var budgets, directed []int64
		// directed: one byte short of each file's final size — the failure then surfaces only in the
		// last flush (Close) of the files of that size, all smaller files complete
		for sz := range sizes {
			if sz > 0 {
				directed = append(directed, int64(sz-1))
			}
		}
		sort.Slice(directed, func(i, j int) bool { return directed[i] > directed[j] })
		if len(directed) > 10 {
			directed = directed[:10]
		}
		for b := 0; b <= total+block; b += block {
			budgets = append(budgets, int64(b))
		}
		for k := 0; k < 8; k++ {
			budgets = append(budgets, int64(top.Intn(total+8)))
		}
		if len(budgets) > 30 {
			top.Shuffle(len(budgets), func(i, j int) { budgets[i], budgets[j] = budgets[j], budgets[i] })
			budgets = budgets[:30]
		}
		budgets = append(directed, budgets...)
		var wg sync.WaitGroup
		var mu sync.Mutex
		sem := make(chan struct{}, 12)
		for i, b := range budgets {
			wg.Add(1)
			sem <- struct{}{}
			go func(i int, b int64) {
				defer wg.Done()
				defer func() { <-sem }()
				bdir := filepath.Join(dtmp, fmt.Sprintf("budget%d", i))
				sres, fail := runChild(30*time.Second, "child-store", "-case", casePath, "-dir", bdir, "-budget", fmt.Sprint(b))
				cc := c
				cc.Budget = b
				cc.Fault = fmt.Sprintf("no file may grow beyond %d bytes (largest backup file: %d)", b, total)
				mu.Lock()
				defer mu.Unlock()
				if fail != "" {
					idx := sink.Add(fmt.Sprintf("(* budget %d db %d *)", b, dbi), cc, "budget-crash", true)
					sink.Fail(idx, "StoreToDisk under a file-size limit: "+fail, "c12-store-crash", cc)
					return
				}
				if sres.Store == "nil" {
					// success reported: the directory must restore exactly
					lres, lfail := runChild(20*time.Second, "child-load", "-dir", bdir, "-cmp", fmt.Sprint(c.DB.Cmp), "-delta", fmt.Sprint(c.Delta), "-conc", "2")
					okLoad := lfail == "" && lres.Ok && fmt.Sprint(lres.Items) == fmt.Sprint(hexItems(stored))
					idx := sink.Add(fmt.Sprintf("(* budget %d db %d ok *)", b, dbi), cc, "budget-success", b < int64(total))
					if !okLoad {
						sink.Fail(idx, fmt.Sprintf("StoreToDisk returned nil although writes failed (%s), and the directory does not restore the snapshot (load: ok=%v err=%q %s)", cc.Fault, lres.Ok, lres.Err, lfail), "c12-silent-partial", cc)
					}
				} else {
					sink.Add(fmt.Sprintf("(* budget %d db %d err *)", b, dbi), cc, "budget-error", true)
				}
				os.RemoveAll(bdir)
			}(i, b)
		}
		wg.Wait()
		// (iii) Close() racing a backup in its set-up (user-managed memory, delta interleaving)
		{
			rdir := filepath.Join(dtmp, "closerace")
			sres, fail := runChild(60*time.Second, "child-store", "-case", casePath, "-dir", rdir, "-budget", "-2")
			cc := c
			cc.Budget = -2
			cc.Fault = "Close() called while StoreToDisk (user-managed memory, delta interleaving) stands in its set-up"
			idx := sink.Add(fmt.Sprintf("(* close race db %d *)", dbi), cc, "close-race", true)
			switch {
			case fail != "":
				sink.Fail(idx, "Close() during a running backup under the guard allocator: "+fail, "c04-close-during-backup", cc)
			case sres.CloseEarly:
				sink.Fail(idx, "Close() returned while a backup that went on to succeed was still running (with user-managed memory it has freed the store under the scan)", "c04-close-during-backup", cc)
			case sres.Ledger != "":
				sink.Fail(idx, "Close() during a running backup: "+sres.Ledger, "c04-close-during-backup", cc)
			}
			os.RemoveAll(rdir)
		}
	}
	return nil
}

func (d *diskDB) crashObserve(img string, sink *CaseSink, c diskCase, kind string) {
	res, fail := runChild(20*time.Second, "child-load", "-dir", img, "-cmp", fmt.Sprint(c.DB.Cmp), "-delta", fmt.Sprint(c.Delta), "-conc", "2")
	obs := ""
	bad, sig := "", ""
	switch {
	case fail == "hang":
		obs = "OHang"
		bad, sig = "LoadFromDisk hangs on the directory left by an interrupted backup ("+c.Fault+")", "c12-hang"
	case fail != "":
		obs = "OPanic"
		bad, sig = "LoadFromDisk crashes on the directory left by an interrupted backup ("+c.Fault+"): "+fail, "c12-panic"
	case !res.Ok:
		obs = "OErr"
	default:
		var items [][]byte
		for _, h := range res.Items {
			b, _ := hex.DecodeString(h)
			items = append(items, b)
		}
		obs = "(OLoaded " + cRLEs(items) + ")"
		if !sameItems(items, d.stored) {
			bad, sig = fmt.Sprintf("the directory left by an interrupted backup (%s) loads successfully with %d items; the snapshot holds %d", c.Fault, len(items), len(d.stored)), "c12-partial-loads"
		}
	}
	coq := coqLoadCase(c.DB.Cmp, img, c.Delta, obs)
	idx := sink.Add(coq, c, kind, true)
	if bad != "" {
		sink.Fail(idx, bad, sig, c)
	}
}

func init() {
	commands["child-load"] = func(a runArgs) error { childLoad(a.dir, a.cmp, a.delta, a.conc); return nil }
	commands["child-store"] = func(a runArgs) error { childStore(a.casep, a.dir, a.budget); return nil }
	commands["disk-load"] = func(a runArgs) error {
		sink := NewSink(a.out, "C11", "Tie.DiskTie", a.seed)
		sink.perFile = 120
		sink.meta.Rule = "a generated database is stored (delta on/off, concurrency 1/2/8), then single faults are applied to a copy: every file removed, every byte of the manifests altered (bit flip / 0x00 / digit) or the manifest truncated, random bit flips and truncations (incl. 0 and size-1) of every non-empty shard file, files.json entries redirected to another shard, and k = 1, conc, conc+1, all shard files truncated at once; LoadFromDisk runs in a child process under a 20 s watchdog; observable ok(items)/error/panic/hang is compared with the model's load of the same damaged image; non-trivial = any real fault"
		if a.replay != "" {
			bs, err := os.ReadFile(a.replay)
			if err != nil {
				return err
			}
			var rp struct {
				Case diskCase `json:"case"`
			}
			if err := json.Unmarshal(bs, &rp); err != nil {
				return err
			}
			if err := diskLoadReplay(rp.Case, sink); err != nil {
				return err
			}
			return sink.Flush()
		}
		if err := diskLoadRun(a, sink); err != nil {
			return err
		}
		return sink.Flush()
	}
	commands["disk-store"] = func(a runArgs) error {
		sink := NewSink(a.out, "C12", "Tie.DiskTie", a.seed)
		sink.perFile = 120
		sink.meta.Rule = "StoreToDisk with DiskBlockSize 64/256/4096: (i) the directory is copied at every file-system mutation boundary (after every 7th item write, before every Close / manifest write) and additionally with the most recently written file torn at a random offset; each image is loaded in a child and compared with the model; (ii) StoreToDisk re-run in a child under RLIMIT_FSIZE for every multiple of the block size and random budgets: a nil result must leave a directory that restores exactly"
		if a.replay != "" {
			return fmt.Errorf("replay of C12 cases: re-run ./check C12 --seed <seed from the replay file>")
		}
		if err := diskStoreRun(a, sink); err != nil {
			return err
		}
		// budget cases carry no Coq term
		var cases []string
		for _, c := range sink.cases {
			if strings.HasPrefix(c, "(*") {
				cases = append(cases, "CLoad 0 PMissing PMissing PMissing [] PMissing PMissing [] false OErr")
			} else {
				cases = append(cases, c)
			}
		}
		sink.cases = cases
		return sink.Flush()
	}
}
