package main

import (
	"encoding/json"
	"fmt"
	"math/rand"
	"os"
	"regexp"
	"strconv"
	"unsafe"

	"github.com/couchbase/nitro/skiplist"
)

// C13 / C14 / C15: package skiplist used directly; goroutines under the deterministic scheduler,
// parking immediately before every atomic access of findPath / Insert4 / softDelete / iterator.

type skOp struct {
	Op   string `json:"op"` // ins del deln look first seek next
	K    int    `json:"k,omitempty"`
	Want int    `json:"want,omitempty"` // requested random level for ins
}

type skInput struct {
	Progs   [][]skOp `json:"progs"`
	Choices []int    `json:"choices,omitempty"`
	Sticky  int      `json:"sticky"`
	Seed    int64    `json:"seed"`
	Prefill []skOp   `json:"prefill,omitempty"` // run by thread 0's program prefix, sequentially (it is simply part of thread 0... kept empty)
	MM      bool     `json:"mm"`
	Stall   bool     `json:"stall,omitempty"` // scheduling heuristic: hold back a thread that has just marked a node
	Refresh int      `json:"refresh,omitempty"` // iterators refresh every Refresh steps (oracle-only runs: the model's iterator does not refresh)
}

var skAllPoints = []int{
	skiplist.VerifPtLevelLoad, skiplist.VerifPtLevelCas, skiplist.VerifPtFP0, skiplist.VerifPtFP1, skiplist.VerifPtFP2,
	skiplist.VerifPtFPH, skiplist.VerifPtInsPub, skiplist.VerifPtInsOwn, skiplist.VerifPtInsLink, skiplist.VerifPtInsCheck, skiplist.VerifPtInsSucc, skiplist.VerifPtSdLoad,
	skiplist.VerifPtSdCas, skiplist.VerifPtItFirst, skiplist.VerifPtItNext, skiplist.VerifPtItHelp,
}

func skGen(r *rand.Rand, iterMode bool) *skInput {
	in := &skInput{Sticky: []int{0, 30, 60, 85}[r.Intn(4)], Seed: r.Int63()}
	nt := 2 + r.Intn(3)
	nk := 2 + r.Intn(3)
	lev := func() int {
		l := 0
		for r.Intn(3) == 0 && l < 3 {
			l++
		}
		return l
	}
	// flavour: adjacent keys all present, then mostly deletes/lookups racing on them (windows in
	// which several neighbouring nodes are marked but not yet unlinked)
	crowded := !iterMode && r.Intn(3) == 0
	in.Stall = crowded && r.Intn(2) == 0
	if crowded {
		nt = 3 + r.Intn(2)
		nk = 3 + r.Intn(2)
		in.Sticky = []int{0, 20, 40}[r.Intn(3)]
	}
	// flavour "pile-up": every key present, each goroutine deletes one key (neighbours get marked
	// together, the stall heuristic keeps them from unlinking) and then looks at / re-inserts a key
	// that somebody deletes
	if crowded && r.Intn(2) == 0 {
		nt, nk = 4, 3+r.Intn(2)
		in.Stall = true
		var prog0 []skOp
		for k := 1; k <= nk; k++ {
			prog0 = append(prog0, skOp{Op: "ins", K: 10 * k, Want: lev()})
		}
		in.Progs = append(in.Progs, prog0)
		first := r.Intn(nk)
		for t := 1; t < nt; t++ {
			victim := 10 * (1 + (first+nk-(t-1))%nk) // descending neighbours
			prog := []skOp{{Op: "del", K: victim}}
			if r.Intn(3) > 0 {
				again := 10 * (1 + (first+nk-r.Intn(nt-1))%nk)
				prog = append(prog, skOp{Op: []string{"ins", "ins", "look"}[r.Intn(3)], K: again, Want: lev()})
			}
			in.Progs = append(in.Progs, prog)
		}
		return in
	}
	for t := 0; t < nt; t++ {
		var prog []skOp
		m := 1 + r.Intn(3)
		if t == 0 {
			// thread 0 first builds some content
			if crowded {
				for k := 1; k <= nk; k++ {
					prog = append(prog, skOp{Op: "ins", K: 10 * k, Want: lev()})
				}
				in.Progs = append(in.Progs, prog)
				continue
			}
			for k := 0; k < 1+r.Intn(3); k++ {
				prog = append(prog, skOp{Op: "ins", K: 10 * (1 + r.Intn(nk)), Want: lev()})
			}
		}
		if iterMode && t == nt-1 {
			if r.Intn(2) == 0 {
				prog = append(prog, skOp{Op: "refresh", K: 1 + r.Intn(3)})
			}
			prog = append(prog, skOp{Op: []string{"first", "seek"}[r.Intn(2)], K: 10*r.Intn(nk+1) + 5*r.Intn(2)})
			for k := 0; k < 2+r.Intn(4); k++ {
				prog = append(prog, skOp{Op: "next"})
			}
			in.Progs = append(in.Progs, prog)
			continue
		}
		for k := 0; k < m; k++ {
			x := r.Intn(100)
			key := 10 * (1 + r.Intn(nk))
			if crowded {
				switch {
				case x < 55:
					prog = append(prog, skOp{Op: "del", K: key})
				case x < 80:
					prog = append(prog, skOp{Op: "look", K: key})
				default:
					prog = append(prog, skOp{Op: "ins", K: key, Want: lev()})
				}
				continue
			}
			switch {
			case x < 40:
				prog = append(prog, skOp{Op: "ins", K: key, Want: lev()})
			case x < 65:
				prog = append(prog, skOp{Op: "del", K: key})
			case x < 80:
				prog = append(prog, skOp{Op: "deln", K: key})
			default:
				prog = append(prog, skOp{Op: "look", K: key})
			}
		}
		in.Progs = append(in.Progs, prog)
	}
	return in
}

var skStatRe = regexp.MustCompile(`"(\w+)":\s+(-?\d+)`)

func skChain(sl *skiplist.Skiplist, level int) string {
	var parts []string
	n, _ := sl.HeadNode().VerifNext(level)
	guard := 0
	for n != sl.TailNode() && n != nil && guard < 10000 {
		next, del := n.VerifNext(level)
		parts = append(parts, fmt.Sprintf("(%s, %s)", cZ(int64(skiplist.IntFromItem(n.Item()))), cBool(del)))
		n = next
		guard++
	}
	return cList(parts)
}

type skHist struct {
	tid, opIdx   int
	call, ret    int // step indices
	op           skOp
	ok           bool
}

func skRun(in *skInput, sink *CaseSink, prop string) {
	var sl *skiplist.Skiplist
	var arena *Arena
	if in.MM {
		arena = NewArena()
		cfg := skiplist.DefaultConfig()
		cfg.UseMemoryMgmt = true
		cfg.Malloc = arena.Malloc
		cfg.Free = arena.Free
		cfg.BarrierDestructor = func(unsafe.Pointer) {}
		sl = skiplist.NewWithConfig(cfg)
	} else {
		sl = skiplist.New()
	}
	nt := len(in.Progs)
	sch := NewSched(nt, skAllPoints...)
	skiplist.VerifYieldHook = sch.Hook
	defer func() { skiplist.VerifYieldHook = nil }()
	results := make([][]string, nt)
	var keep []unsafe.Pointer // items stay reachable for the Go GC
	var chains []string
	stepNo := 0
	sch.OnStep = func(tid, label int) {
		chains = append(chains, skChain(sl, 0))
		stepNo++
	}
	var hist []skHist
	opPanic := ""
	var iterSeq []int // keys returned by the iterator thread in order (C15 oracle)
	var iterBad string
	iterStartStep, iterStartKey, iterExhausted := -1, -1<<62, false
	for t := 0; t < nt; t++ {
		t := t
		sch.Go(t, func() {
			buf := sl.MakeBuf()
			defer func() {
				if e := recover(); e != nil && opPanic == "" {
					opPanic = fmt.Sprintf("goroutine %d panicked inside an operation: %v", t, e)
				}
			}()
			it := sl.NewIterator(skiplist.CompareInt, sl.MakeBuf())
			defer it.Close()
			if in.Refresh > 0 {
				it.SetRefreshInterval(in.Refresh)
			}
			mine := map[int]*skiplist.Node{}
			positioned := false
			for i, op := range in.Progs[t] {
				sch.OpStart(t)
				call := stepNo
				switch op.Op {
				case "ins":
					itm := skiplist.NewIntKeyItem(op.K)
					keep = append(keep, itm)
					flips := op.Want
					n, ok := sl.Insert2(itm, skiplist.CompareInt, nil, buf, func() float32 {
						if flips > 0 {
							flips--
							return 0.1
						}
						return 0.9
					}, &sl.Stats)
					if ok {
						mine[op.K] = n
					}
					results[t] = append(results[t], "RBool "+cBool(ok))
					hist = append(hist, skHist{t, i, call, stepNo, op, ok})
				case "del":
					itm := skiplist.NewIntKeyItem(op.K)
					ok := sl.Delete(itm, skiplist.CompareInt, buf, &sl.Stats)
					results[t] = append(results[t], "RBool "+cBool(ok))
					hist = append(hist, skHist{t, i, call, stepNo, op, ok})
				case "deln":
					n := mine[op.K]
					ok := false
					if n != nil {
						ok = sl.DeleteNode(n, skiplist.CompareInt, buf, &sl.Stats)
					}
					results[t] = append(results[t], "RBool "+cBool(ok))
					if n != nil {
						hist = append(hist, skHist{t, i, call, stepNo, op, ok})
					}
				case "refresh":
					it.SetRefreshInterval(op.K)
					results[t] = append(results[t], "RBool true")
				case "look":
					itm := skiplist.NewIntKeyItem(op.K)
					_, _, found := sl.Lookup(itm, skiplist.CompareInt, buf, &sl.Stats)
					results[t] = append(results[t], "RBool "+cBool(found))
					hist = append(hist, skHist{t, i, call, stepNo, op, found})
				case "first", "seek", "next":
					if op.Op == "first" {
						iterStartStep, iterStartKey, iterExhausted = call, -1<<62, false
						it.SeekFirst()
						positioned = true
					} else if op.Op == "seek" {
						iterStartStep, iterStartKey, iterExhausted = call, op.K, false
						it.Seek(skiplist.NewIntKeyItem(op.K))
						positioned = true
					} else {
						if !positioned || !it.Valid() {
							results[t] = append(results[t], "RIter false 0%Z")
							continue
						}
						it.Next()
					}
					if it.Valid() {
						k := skiplist.IntFromItem(it.Get())
						results[t] = append(results[t], fmt.Sprintf("RIter true %s", cZ(int64(k))))
						if len(iterSeq) > 0 && k < iterSeq[len(iterSeq)-1] && iterBad == "" {
							iterBad = fmt.Sprintf("iterator went backwards: %d after %d", k, iterSeq[len(iterSeq)-1])
						}
						if op.Op != "next" {
							iterSeq = iterSeq[:0]
						}
						iterSeq = append(iterSeq, k)
					} else {
						results[t] = append(results[t], "RIter false 0%Z")
						if positioned {
							iterExhausted = true
						}
					}
				}
			}
		})
	}
	r := rand.New(rand.NewSource(in.Seed))
	var chooser func([]int) int
	if skCoarse != nil {
		// systematic mode: thread 0 (the build phase) runs first; afterwards the running goroutine is
		// switched only where the enumeration decides, and it is asked only at operation boundaries
		// and right after a delete mark was set (label SdLoad following SdCas)
		last := -1
		skDecisions, skDecEnabled = nil, nil
		chooser = func(en []int) int {
			has := func(t int) bool {
				for _, e := range en {
					if e == t {
						return true
					}
				}
				return false
			}
			if has(0) {
				return 0
			}
			if last >= 0 && has(last) {
				n := len(sch.Trace)
				atSwitch := n > 0 && sch.Trace[n-1][0] == last && (sch.Trace[n-1][1] == 0 ||
					(n > 1 && sch.Trace[n-1][1] == skiplist.VerifPtSdLoad && sch.Trace[n-2][1] == skiplist.VerifPtSdCas && sch.Trace[n-2][0] == last) ||
					// stale-tower programs: also right after the level-0 publish of a tall node
					// iterator programs: also right after the iterator's own unlink CAS
					(skSwitchHelp && n > 1 && sch.Trace[n-2][0] == last && sch.Trace[n-2][1] == skiplist.VerifPtItHelp) ||
					(skSwitchPub && n > 1 && sch.Trace[n-1][1] == skiplist.VerifPtInsSucc && sch.Trace[n-2][1] == skiplist.VerifPtInsPub && sch.Trace[n-2][0] == last))
				if !atSwitch {
					return last
				}
			}
			c := skCoarse(en)
			skDecisions = append(skDecisions, c)
			skDecEnabled = append(skDecEnabled, append([]int(nil), en...))
			last = c
			return c
		}
	} else if len(in.Choices) > 0 {
		chooser = replayChooser(in.Choices)
	} else {
		chooser = randomChooser(r, in.Sticky)
		if in.Stall {
			// keep threads that have just set a delete mark away from their unlink pass for a while,
			// so that several neighbouring nodes are marked but still linked at the same time
			base := chooser
			stalled := make([]int, nt)
			lastLab := make([]int, nt)
			prev := sch.OnStep
			sch.OnStep = func(tid, label int) {
				prev(tid, label)
				if label == skiplist.VerifPtSdLoad && lastLab[tid] == skiplist.VerifPtSdCas && r.Intn(2) == 0 {
					stalled[tid] = 10 + r.Intn(60) // marked, unlink pass not yet run
				}
				if label == skiplist.VerifPtSdLoad && lastLab[tid] != skiplist.VerifPtSdCas && lastLab[tid] != skiplist.VerifPtSdLoad && r.Intn(2) == 0 {
					stalled[tid] = 10 + r.Intn(60) // node located, not yet marked
				}
				lastLab[tid] = label
				for i := range stalled {
					if stalled[i] > 0 && i != tid {
						stalled[i]--
					}
				}
			}
			chooser = func(en []int) int {
				var free []int
				for _, e := range en {
					if stalled[e] == 0 {
						free = append(free, e)
					}
				}
				if len(free) > 0 {
					return base(free)
				}
				return base(en)
			}
		}
	}
	sch.Run(nt, chooser, 3000)
	finished := sch.AllFinished()
	if !finished {
		sch.Abandon()
	}
	skiplist.VerifYieldHook = nil
	in.Choices = nil
	var tr []string
	for i, st := range sch.Trace {
		in.Choices = append(in.Choices, st[0])
		tr = append(tr, fmt.Sprintf("(%d, %d, %s)", st[0], st[1], chains[i]))
	}
	level := sl.VerifLevel()
	var allChains []string
	for l := 0; l <= level; l++ {
		allChains = append(allChains, skChain(sl, l))
	}
	rep := sl.GetStats()
	var counts []string
	for l := 0; l <= 4; l++ {
		counts = append(counts, cZ(rep.NodeDistribution[l]))
	}
	var progs, res []string
	for _, p := range in.Progs {
		var ops []string
		for _, o := range p {
			switch o.Op {
			case "ins":
				ops = append(ops, fmt.Sprintf("OInsert %s %d", cZ(int64(o.K)), o.Want))
			case "del":
				ops = append(ops, "ODelete "+cZ(int64(o.K)))
			case "deln":
				ops = append(ops, "ODeleteNode "+cZ(int64(o.K)))
			case "look":
				ops = append(ops, "OLookup "+cZ(int64(o.K)))
			case "refresh":
				ops = append(ops, fmt.Sprintf("OSetRefresh %d", o.K))
			case "first":
				ops = append(ops, "OSeekFirst")
			case "seek":
				ops = append(ops, "OSeek "+cZ(int64(o.K)))
			case "next":
				ops = append(ops, "ONext")
			}
		}
		progs = append(progs, cList(ops))
	}
	for _, rs := range results {
		res = append(res, cList(rs))
	}
	coq := fmt.Sprintf("CSkip %s %s %s %s %d %s %s %s", cList(progs), cList(tr), cList(res), cList(allChains), level, cList(counts), cZ(rep.SoftDeletes), cZ(rep.NodeAllocs))

	// ---- oracles on the implementation alone -------------------------------------------------
	bad, sig := "", ""
	if sch.stall {
		bad, sig = "a scheduled goroutine neither reached a yield point nor finished within 20s", "c13-stall"
	}
	if bad == "" && opPanic != "" {
		bad, sig = opPanic, "c13-panic"
	}
	if bad == "" && finished {
		bad, sig = skLinearizable(hist)
	}
	if bad == "" && finished {
		bad, sig = skStructure(sl, rep.NodeDistribution[:], rep.SoftDeletes, int64(rep.NodeCount))
	}
	if bad == "" && finished {
		// allocation statistics: a node is counted when its insert succeeds; these runs never free a
		// node (rejected duplicates are handed back to the allocator uncounted), so allocations minus
		// frees is the number of nodes ever linked
		okIns := int64(0)
		for _, o := range hist {
			if o.op.Op == "ins" && o.ok {
				okIns++
			}
		}
		if rep.NodeAllocs != okIns || rep.NodeFrees != 0 {
			bad, sig = fmt.Sprintf("statistics at quiescence: node_allocs=%d node_frees=%d, but %d inserts succeeded and no linked node was freed", rep.NodeAllocs, rep.NodeFrees, okIns), "c14-stats"
		}
	}
	if bad == "" && iterBad != "" {
		bad, sig = iterBad, "c15-backwards"
	}
	if bad == "" && finished && iterStartStep >= 0 {
		// soundness: every key the iterator returned was inserted by somebody at some time
		inserted := map[int]bool{}
		touchedByDelete := map[int]bool{}
		insertedBefore := map[int]bool{}
		for _, o := range hist {
			if o.op.Op == "ins" && o.ok {
				inserted[o.op.K] = true
				if o.ret <= iterStartStep {
					insertedBefore[o.op.K] = true
				}
			}
			if o.op.Op == "del" || o.op.Op == "deln" {
				touchedByDelete[o.op.K] = true
			}
		}
		got := map[int]bool{}
		for _, k := range iterSeq {
			got[k] = true
			if !inserted[k] {
				bad, sig = fmt.Sprintf("the iterator returned key %d which was never inserted", k), "c15-unsound"
			}
		}
		// completeness: a key present before the scan started, never the target of a delete, at or
		// behind the start position, must have been returned by a scan that ran to the end
		if bad == "" && iterExhausted {
			for k := range insertedBefore {
				if !touchedByDelete[k] && k >= iterStartKey && !got[k] {
					bad, sig = fmt.Sprintf("key %d was present for the whole scan (inserted before it started, never deleted) but the iterator did not return it; returned %v", k, iterSeq), "c15-incomplete"
				}
			}
		}
	}
	preempt := 0
	for i := 1; i < len(sch.Trace); i++ {
		if sch.Trace[i][0] != sch.Trace[i-1][0] && sch.Trace[i-1][1] != 0 {
			preempt++
		}
	}
	idx := sink.Add(coq, in, fmt.Sprintf("threads%d", nt), preempt >= 2 && len(hist) >= 3)
	if bad != "" {
		sink.Fail(idx, bad, sig, in)
	}
	if arena != nil {
		arena.Release()
	}
	_ = strconv.Itoa
	_ = prop
}

// brute-force linearizability of a small history against an ordered-set specification
func skLinearizable(h []skHist) (string, string) {
	n := len(h)
	if n > 12 {
		return "", ""
	}
	used := make([]bool, n)
	set := map[int]int{} // key -> count (0/1)
	// DeleteNode is on a specific node; at the set level it behaves like Delete of that key when the
	// node is the one present; a failed DeleteNode is always allowed (someone else deleted that node).
	var rec func(done int) bool
	rec = func(done int) bool {
		if done == n {
			return true
		}
		// minimal return time among unused: an op can be next only if it was called before every
		// unused op returned
		minRet := 1 << 30
		for i := 0; i < n; i++ {
			if !used[i] && h[i].ret < minRet {
				minRet = h[i].ret
			}
		}
		for i := 0; i < n; i++ {
			if used[i] || h[i].call > minRet {
				continue
			}
			o := h[i]
			present := set[o.op.K] > 0
			var ok bool
			var undo func()
			switch o.op.Op {
			case "ins":
				ok = o.ok == !present
				if o.ok {
					set[o.op.K]++
					undo = func() { set[o.op.K]-- }
				}
			case "del":
				ok = o.ok == present
				if o.ok {
					set[o.op.K]--
					undo = func() { set[o.op.K]++ }
				}
			case "deln":
				if o.ok {
					ok = present
					set[o.op.K]--
					undo = func() { set[o.op.K]++ }
				} else {
					ok = true
				}
			case "look":
				ok = o.ok == present
			}
			if ok {
				used[i] = true
				if rec(done + 1) {
					return true
				}
				used[i] = false
			}
			if undo != nil {
				undo()
			}
		}
		return false
	}
	if !rec(0) {
		s := ""
		for _, o := range h {
			s += fmt.Sprintf("[t%d %s(%d)=%v @%d..%d] ", o.tid, o.op.Op, o.op.K, o.ok, o.call, o.ret)
		}
		return "history is not linearizable w.r.t. an ordered set: " + s, "c13-notlinearizable"
	}
	return "", ""
}

// C14 oracle at quiescence: per-level unmarked chains strictly increasing, sub-sequence of the level
// below, every live node linked at all its levels; statistics equal the walk.
func skStructure(sl *skiplist.Skiplist, dist []int64, soft int64, nodeCount int64) (string, string) {
	level := sl.VerifLevel()
	type ent struct {
		n   *skiplist.Node
		del bool
	}
	walk := func(l int) []ent {
		var out []ent
		n, _ := sl.HeadNode().VerifNext(l)
		for g := 0; n != sl.TailNode() && n != nil && g < 100000; g++ {
			next, del := n.VerifNext(l)
			out = append(out, ent{n, del})
			n = next
		}
		return out
	}
	l0 := walk(0)
	live0 := map[*skiplist.Node]bool{}
	perLevel := map[int]int64{}
	prev := -1 << 62
	for _, e := range l0 {
		if e.del {
			return fmt.Sprintf("a node marked deleted (key %d) is still linked at level 0 at quiescence", skiplist.IntFromItem(e.n.Item())), "c14-marked-linked"
		}
		k := skiplist.IntFromItem(e.n.Item())
		if k <= prev {
			return fmt.Sprintf("level 0 is not strictly increasing: %d after %d", k, prev), "c14-order"
		}
		prev = k
		live0[e.n] = true
		perLevel[e.n.Level()]++
	}
	for l := 1; l <= level; l++ {
		seen := map[*skiplist.Node]bool{}
		prev = -1 << 62
		for _, e := range walk(l) {
			if e.del {
				continue // a marked node may linger on an upper level
			}
			k := skiplist.IntFromItem(e.n.Item())
			if k <= prev {
				return fmt.Sprintf("level %d is not strictly increasing", l), "c14-order"
			}
			prev = k
			if !live0[e.n] {
				return fmt.Sprintf("unmarked node (key %d) on level %d is not on level 0", k, l), "c14-subseq"
			}
			seen[e.n] = true
		}
		for n := range live0 {
			if n.Level() >= l && !seen[n] {
				return fmt.Sprintf("live node (key %d, height %d) is not linked at level %d", skiplist.IntFromItem(n.Item()), n.Level(), l), "c14-height"
			}
		}
	}
	var mem int64
	for _, e := range l0 {
		mem += int64(sl.Size(e.n))
	}
	if sl.MemoryInUse() != mem {
		return fmt.Sprintf("MemoryInUse()=%d, the nodes of the walk account for %d bytes", sl.MemoryInUse(), mem), "c14-stats"
	}
	if int64(len(l0)) != nodeCount {
		return fmt.Sprintf("node count statistic %d, walk finds %d nodes", nodeCount, len(l0)), "c14-stats"
	}
	for l := 0; l < len(dist); l++ {
		if dist[l] != perLevel[l] {
			return fmt.Sprintf("level distribution[%d]=%d, walk finds %d", l, dist[l], perLevel[l]), "c14-stats"
		}
	}
	if soft != 0 {
		return fmt.Sprintf("soft_deletes=%d at quiescence", soft), "c14-stats"
	}
	return "", ""
}

// systematic exploration (skip-exh): decision chooser supplied by Explore, and what it decided
var skCoarse func([]int) int
var skSwitchPub bool
var skSwitchHelp bool
var skExhIterOnly bool
var skDecisions []int
var skDecEnabled [][]int

func skExhCommand(a runArgs) error {
	sink := NewSink(a.out, "C13", "Tie.SkipTie", a.seed)
	sink.scope = "nat_scope"
	sink.perFile = 40
	sink.meta.Rule = "SYSTEMATIC: pile-up programs (3..4 keys built by goroutine 0, then three goroutines each deleting one of neighbouring keys and possibly re-inserting or looking up a deleted key) alternating with duel programs (2..3 goroutines deleting the same node of height 1..3, possibly re-inserting it) and stale-tower programs (a tall node deleted while its inserter has linked level 0 only, a key behind it inserted and looked up meanwhile; here the goroutine may also change right after a level-0 publish): every schedule in which the running goroutine changes only at operation boundaries and right after a delete mark has been set is executed (depth-first, capped per program) and replayed on the model step by step; oracles as skip; non-trivial = at least two switches away from a goroutine that had just marked a node"
	top := rand.New(rand.NewSource(a.seed))
	total := 0
	for p := 0; p < a.n; p++ {
		var base *skInput
		if p == 0 && !skExhIterOnly {
			// the canonical pile-up
			base = &skInput{Progs: [][]skOp{
				{{Op: "ins", K: 10}, {Op: "ins", K: 20}, {Op: "ins", K: 30}},
				{{Op: "del", K: 30}, {Op: "ins", K: 30}},
				{{Op: "del", K: 20}},
				{{Op: "del", K: 10}}}}
		} else if skExhIterOnly {
			// an iterator walks 10 20 30 40 while one goroutine deletes the node it may stand on and
			// another inserts a key directly in front of that node (the iterator's own unlink of a marked
			// node must continue with the frozen successor, not with whatever its predecessor points to)
			x := 10 * (2 + top.Intn(2))
			base = &skInput{Progs: [][]skOp{
				{{Op: "ins", K: 10, Want: top.Intn(2)}, {Op: "ins", K: 20, Want: top.Intn(2)}, {Op: "ins", K: 30, Want: top.Intn(2)}, {Op: "ins", K: 40}},
				{{Op: "first"}, {Op: "next"}, {Op: "next"}, {Op: "next"}, {Op: "next"}},
				{{Op: "del", K: x}},
				{{Op: "ins", K: x - 5, Want: top.Intn(2)}}}}
			if top.Intn(3) == 0 {
				base.Progs[1][0] = skOp{Op: "seek", K: x - 10}
			}
			skSwitchHelp = true
		} else if p%4 == 2 {
			// stale tower: a tall node is published at level 0, deleted and unlinked there while its
			// inserter has not linked the upper level yet; a key behind it is inserted meanwhile and
			// looked up after the upper level was linked (searches must not enter the bottom list
			// through the frozen pointer of the dead node)
			k := 10 * (1 + top.Intn(3))
			base = &skInput{Progs: [][]skOp{
				{{Op: "ins", K: 1, Want: 0}},
				{{Op: "ins", K: k, Want: 1 + top.Intn(2)}, {Op: "look", K: k + 10}},
				{{Op: "del", K: k}},
				{{Op: "look", K: k - 5}, {Op: "ins", K: k + 10, Want: 0}}}}
			if top.Intn(2) == 0 {
				base.Progs[3] = append(base.Progs[3], skOp{Op: []string{"look", "del"}[top.Intn(2)], K: k + 10})
			}
			skSwitchPub = true
		} else if p%2 == 1 {
			// duel: several goroutines delete the SAME tall node (marks are set level by level, top-down)
			tall := 1 + (p/2)%3
			base = &skInput{Progs: [][]skOp{
				{{Op: "ins", K: 10, Want: tall}, {Op: "ins", K: 20, Want: top.Intn(2)}},
				{{Op: "del", K: 10}},
				{{Op: "del", K: 10}}}}
			switch top.Intn(3) {
			case 0:
				base.Progs = append(base.Progs, []skOp{{Op: "del", K: 10}})
			case 1:
				base.Progs = append(base.Progs, []skOp{{Op: "ins", K: 10, Want: top.Intn(3)}})
			default:
				base.Progs[1] = append(base.Progs[1], skOp{Op: "ins", K: 10, Want: top.Intn(2)})
			}
		} else {
			for {
				base = skGen(top, false)
				if len(base.Progs) == 4 && base.Stall && len(base.Progs[0]) >= 3 && len(base.Progs[1]) <= 2 {
					tall := false
					for _, o := range base.Progs[0] {
						if o.Want > 1 {
							tall = true
						}
					}
					if !tall {
						break
					}
				}
			}
			base.Stall = false
		}
		base.MM = p%3 == 2
		runs := Explore(12, 2500, func(ch func([]int) int) ([]int, [][]int) {
			in := *base
			in.Choices = nil
			skCoarse = ch
			prop := "C13"
			if skExhIterOnly {
				prop = "C15"
			}
			skRun(&in, sink, prop)
			skCoarse = nil
			return skDecisions, skDecEnabled
		})
		skSwitchPub = false
		skSwitchHelp = false
		total += runs
	}
	sink.meta.Extra = map[string]interface{}{"programs": a.n, "schedules": total}
	return sink.Flush()
}

func skCommand(prop string, iterMode bool, rule string) func(a runArgs) error {
	return func(a runArgs) error {
		sink := NewSink(a.out, prop, "Tie.SkipTie", a.seed)
		sink.scope = "nat_scope"
		sink.perFile = 40
		sink.meta.Rule = rule
		if a.replay != "" {
			bs, err := os.ReadFile(a.replay)
			if err != nil {
				return err
			}
			var rp struct {
				Case skInput `json:"case"`
			}
			if err := json.Unmarshal(bs, &rp); err != nil {
				return err
			}
			skRun(&rp.Case, sink, prop)
			return sink.Flush()
		}
		top := rand.New(rand.NewSource(a.seed))
		for i := 0; i < a.n; i++ {
			in := skGen(top, iterMode)
			in.MM = i%3 == 2
			sink.Begin(in)
			skRun(in, sink, prop)
		}
		return sink.Flush()
	}
}

// skip-iter-refresh: as skip-iter with refreshing iterators; oracle only
func skIterRefreshCommand(a runArgs) error {
	sink := NewSink(a.out, "C15", "", a.seed)
	sink.meta.Rule = "ORACLE ONLY: as skip-iter, the iterator refreshing every 1..3 steps (Refresh = new session + Seek to the current item), with deletes aimed at the node the iterator stands on, its predecessor and its successor; oracles: never backwards, soundness, completeness; non-trivial as skip"
	run := func(in *skInput) {
		skRun(in, sink, "C15")
	}
	if a.replay != "" {
		bs, err := os.ReadFile(a.replay)
		if err != nil {
			return err
		}
		var rp struct {
			Case skInput `json:"case"`
		}
		if err := json.Unmarshal(bs, &rp); err != nil {
			return err
		}
		run(&rp.Case)
		sink.cases = nil
		return sink.Flush()
	}
	top := rand.New(rand.NewSource(a.seed))
	for i := 0; i < a.n; i++ {
		in := skGen(top, true)
		in.Refresh = top.Intn(4) // 0 = a plain scan
		in.MM = i%3 == 2
		if i%2 == 0 {
			// a long stable run of keys under the scan, other goroutines delete single keys of it
			nk := 4 + top.Intn(3)
			var prog0 []skOp
			for k := 1; k <= nk; k++ {
				prog0 = append(prog0, skOp{Op: "ins", K: 10 * k, Want: top.Intn(2)})
			}
			scan := []skOp{{Op: "first"}}
			for k := 0; k < nk+1; k++ {
				scan = append(scan, skOp{Op: "next"})
			}
			in.Progs = [][]skOp{prog0, {{Op: "del", K: 10 * (1 + top.Intn(nk))}}, {{Op: "del", K: 10 * (1 + top.Intn(nk))}}, scan}
			in.Sticky = []int{60, 85, 95}[top.Intn(3)]
			if i%4 == 0 {
				// the scanning goroutine itself deletes the node it stands on (or a neighbour) between
				// two steps — the deletion is complete before the next step, whatever the schedule
				j := top.Intn(nk - 1)
				victim := 10 * (j + 1 + []int{0, 0, 0, -1, 1}[top.Intn(5)])
				scan = []skOp{{Op: "first"}}
				for k := 0; k < j; k++ {
					scan = append(scan, skOp{Op: "next"})
				}
				if victim >= 10 {
					if top.Intn(2) == 0 {
						// a new node right in front of the one the iterator stands on, then that one goes
						scan = append(scan, skOp{Op: "ins", K: victim - 5, Want: top.Intn(2)})
					}
					scan = append(scan, skOp{Op: "del", K: victim})
				}
				for k := 0; k < nk+1-j; k++ {
					scan = append(scan, skOp{Op: "next"})
				}
				in.Progs[3] = scan
				if top.Intn(2) == 0 {
					in.Progs = [][]skOp{prog0, scan}
				}
			}
		}
		sink.Begin(in)
		run(in)
	}
	sink.cases = nil
	return sink.Flush()
}

func init() {
	commands["skip-iter-refresh"] = skIterRefreshCommand
	commands["skip"] = skCommand("C13", false, "2..4 goroutines on one skiplist (Go-managed and user-managed node memory), programs of 1..3 Insert (scripted level 0..3)/Delete/DeleteNode/Lookup over 2..4 keys after a short build phase, random schedules (stickiness 0/30/60/85%) parking before EVERY atomic access of findPath, Insert4, softDelete and NewLevel; after each step the label and the level-0 chain with marks are compared with the model, at the end all levels, results and statistics; oracle: brute-force linearizability of the call/return history + structural walk; non-trivial = >=2 preemptions inside operations and >=3 completed ops")
	commands["skip-exh"] = skExhCommand
	commands["skip-iter-exh"] = func(a runArgs) error {
		skExhIterOnly = true
		defer func() { skExhIterOnly = false }()
		return skExhCommand(a)
	}
	commands["skip-iter"] = skCommand("C15", true, "as skip, with one goroutine running SeekFirst/Seek + Next... on the list while the others insert and delete (including the node it stands on and its predecessor); oracle additionally: the iterator never goes backwards")
}
