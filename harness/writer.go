package main

import (
	"fmt"
	"math/rand"
	"os"
	"os/signal"
	"path/filepath"
	"syscall"

	"github.com/couchbase/nitro"
)

// C12/C05: the backup file writer (file.go rawFileWriter over bufio.Writer) when writes start failing
// at a byte budget. The budget is a real RLIMIT_FSIZE set around the calls (SIGXFSZ ignored): a write
// that does not fit writes what fits and fails with EFBIG. Observed: the result of every WriteItem
// (the harness goes on after an error), the result of Close, the bytes left in the file; the model
// (Codec/BufWriter.v) must produce exactly the same. Oracle on the implementation alone: a nil Close
// means the complete file is on disk and every WriteItem returned nil.
type wbInput struct {
	Block  int  `json:"block"`
	Budget int  `json:"budget"`
	Items  []RB `json:"items"`
}

func wbRun(db *nitro.Nitro, tmp string, in *wbInput, sink *CaseSink) {
	path := filepath.Join(tmp, "wb")
	os.Remove(path)
	defer func(old int) { nitro.DiskBlockSize = old }(nitro.DiskBlockSize)
	nitro.DiskBlockSize = in.Block
	var items [][]byte
	total := 4
	for _, it := range in.Items {
		items = append(items, it.bytes())
		total += 4 + len(it.bytes())
	}
	w := db.VerifNewFileWriter()
	if err := w.Open(path); err != nil {
		panic(err)
	}
	var old syscall.Rlimit
	if err := syscall.Getrlimit(syscall.RLIMIT_FSIZE, &old); err != nil {
		panic(err)
	}
	lim := old
	lim.Cur = uint64(in.Budget)
	if err := syscall.Setrlimit(syscall.RLIMIT_FSIZE, &lim); err != nil {
		panic(err)
	}
	var oks []string
	allOK := true
	for _, bs := range items {
		err := w.WriteItem(db.VerifNewItem(bs))
		oks = append(oks, cBool(err == nil))
		if err != nil {
			allOK = false
		}
	}
	cerr := w.Close()
	if err := syscall.Setrlimit(syscall.RLIMIT_FSIZE, &old); err != nil {
		panic(err)
	}
	file, _ := os.ReadFile(path)
	coq := fmt.Sprintf("CBudget %d %d %s %s %s %s", in.Block, in.Budget, cRLEs(items), cList(oks), cBool(cerr == nil), cRLE(file))
	kind := "fits"
	if in.Budget < total {
		kind = "overflow"
		if in.Budget > total-in.Block && in.Budget >= total-4-in.Block {
			kind = "overflow-in-final-flush"
		}
	}
	idx := sink.Add(coq, in, fmt.Sprintf("writer-%s", kind), len(items) >= 1)
	if cerr == nil && (len(file) != total || !allOK) {
		sink.Fail(idx, fmt.Sprintf("Close() returned nil although writes failed: the file holds %d of %d bytes (budget %d, buffer %d), all WriteItem nil=%v", len(file), total, in.Budget, in.Block, allOK), "c12-writer-silent", in)
	}
	if cerr != nil && in.Budget >= total {
		sink.Fail(idx, fmt.Sprintf("Close() failed (%v) although the whole file (%d bytes) fits the budget %d", cerr, total, in.Budget), "c12-writer-spurious", in)
	}
}

func wbGen(r *rand.Rand) *wbInput {
	in := &wbInput{Block: []int{1, 2, 3, 4, 5, 7, 8, 16, 17, 64, 100, 4096}[r.Intn(12)]}
	n := r.Intn(6)
	total := 4
	for k := 0; k < n; k++ {
		l := 1 + r.Intn(12)
		switch r.Intn(6) {
		case 0:
			l = in.Block // payload exactly one buffer
		case 1:
			l = in.Block + 1 + r.Intn(4)
		case 2:
			if in.Block > 4 {
				l = in.Block - 4 // prefix + payload exactly one buffer
			}
		}
		if l > 300 {
			l = 1 + r.Intn(300)
		}
		in.Items = append(in.Items, toRB(genBytes(r, l)))
		total += 4 + l
	}
	switch r.Intn(5) {
	case 0:
		in.Budget = total + r.Intn(3)
	case 1:
		in.Budget = total - 1 - r.Intn(4) // fails in the end marker or the final flush
	case 2:
		in.Budget = r.Intn(8)
	default:
		in.Budget = r.Intn(total + 2)
	}
	if in.Budget < 0 {
		in.Budget = 0
	}
	return in
}

func init() {
	commands["writer-budget"] = func(a runArgs) error {
		signal.Ignore(syscall.SIGXFSZ)
		sink := NewSink(a.out, "C12", "Tie.WriterTie", a.seed)
		sink.perFile = 250
		sink.meta.Rule = "backup file writer with DiskBlockSize 1..4096 writing 0..5 items (lengths around the buffer size) under RLIMIT_FSIZE budgets 0..total+2 (a fifth of them 1..4 bytes short of the complete file: the failure surfaces only in the end marker or the final Flush); results of every WriteItem and of Close and the bytes in the file compared with the model; non-trivial = at least one item"
		tmp, err := os.MkdirTemp("", "wb")
		if err != nil {
			return err
		}
		defer os.RemoveAll(tmp)
		db := nitro.New()
		defer db.Close()
		if a.replay != "" {
			in := &wbInput{}
			if err := loadReplayCase(a.replay, in); err != nil {
				return err
			}
			wbRun(db, tmp, in, sink)
			return sink.Flush()
		}
		r := rand.New(rand.NewSource(a.seed))
		for i := 0; i < a.n; i++ {
			in := wbGen(r)
			sink.Begin(in)
			wbRun(db, tmp, in, sink)
		}
		return sink.Flush()
	}
}
