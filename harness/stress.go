package main

import (
	"bytes"
	"fmt"
	"math/rand"
	"sync"
	"sync/atomic"
	"time"

	"github.com/couchbase/nitro"
)

// Free-running stress (oracle only, no model): a writer goroutine mutates, creates and closes
// snapshots while reader goroutines scan open snapshots continuously (with and without refresh),
// collection/free workers run. Oracles: every scan of a snapshot equals the content recorded at its
// creation (C01), no allocator misuse / crash with the guard allocator (C04), at the end everything
// is released (C07).
type stressInput struct {
	Seed    int64 `json:"seed"`
	MM      bool  `json:"mm"`
	Cmp     int   `json:"cmp"`
	Millis  int   `json:"millis"`
	Readers int   `json:"readers"`
	Writers int   `json:"writers"`
}

func runStress(in *stressInput, sink *CaseSink) {
	r := rand.New(rand.NewSource(in.Seed))
	cfg := nitro.DefaultConfig()
	if in.Cmp == 1 {
		cfg.SetKeyComparator(nitro.CompareKV)
	}
	var arena *Arena
	if in.MM {
		arena = NewArena()
		cfg.UseMemoryMgmt(arena.Malloc, arena.Free)
	}
	db := nitro.NewWithConfig(cfg)
	ws := make([]*nitro.Writer, in.Writers)
	for i := range ws {
		ws[i] = db.NewWriter()
	}
	type snapRec struct {
		s     *nitro.Snapshot
		items [][]byte
	}
	var mu sync.Mutex
	var open []*snapRec
	var bad atomic.Value
	stop := make(chan struct{})
	var wg sync.WaitGroup
	scans := int64(0)
	mkItem := func(k int, rr *rand.Rand) []byte {
		key := []byte(fmt.Sprintf("k%03d", k))
		if in.Cmp == 1 {
			return nitro.KVToBytes(key, []byte{byte('0' + rr.Intn(10))})
		}
		return key
	}
	keyOf := func(bs []byte) string {
		if in.Cmp == 1 {
			k, _ := nitro.KVFromBytes(bs)
			return string(k)
		}
		return string(bs)
	}
	for i := 0; i < in.Readers; i++ {
		wg.Add(1)
		go func(id int) {
			defer wg.Done()
			rr := rand.New(rand.NewSource(in.Seed + int64(id)*77))
			for {
				select {
				case <-stop:
					return
				default:
				}
				mu.Lock()
				if len(open) == 0 {
					mu.Unlock()
					time.Sleep(time.Millisecond)
					continue
				}
				rec := open[rr.Intn(len(open))]
				// half of the scans hold no handle of their own: the iterator's reference alone must
				// keep the snapshot alive when the writer closes its handle during the scan
				own := rr.Intn(2) == 0
				var it *nitro.Iterator
				if own {
					ok := rec.s.Open()
					mu.Unlock()
					if !ok {
						continue
					}
					it = rec.s.NewIterator()
					if it == nil {
						rec.s.Close()
						continue
					}
				} else {
					it = rec.s.NewIterator()
					mu.Unlock()
					if it == nil {
						continue
					}
				}
				it.SetRefreshRate([]int{0, 1, 3, 50}[rr.Intn(4)])
				var got [][]byte
				for it.SeekFirst(); it.Valid(); it.Next() {
					got = append(got, append([]byte(nil), it.Get()...))
				}
				it.Close()
				if own {
					rec.s.Close()
				}
				atomic.AddInt64(&scans, 1)
				if !sameItems(got, rec.items) && bad.Load() == nil {
					bad.Store(fmt.Sprintf("concurrent scan of open snapshot %d returned %d items, it held %d at creation; got %q want %q", rec.s.VerifSn(), len(got), len(rec.items), got, rec.items))
				}
			}
		}(i)
	}
	// the writer side runs in this goroutine: NewSnapshot must not overlap Put/Delete
	live := map[string][]byte{}
	deadline := time.Now().Add(time.Duration(in.Millis) * time.Millisecond)
	nk := 40
	for time.Now().Before(deadline) && bad.Load() == nil {
		for j := 0; j < 30; j++ {
			w := ws[r.Intn(len(ws))]
			itm := mkItem(r.Intn(nk), r)
			if r.Intn(2) == 0 {
				if n := w.Put2(itm); n != nil {
					live[keyOf(itm)] = itm
				}
			} else {
				if w.Delete(itm) {
					delete(live, keyOf(itm))
				}
			}
		}
		s, _ := db.NewSnapshot()
		var items [][]byte
		for _, v := range live {
			items = append(items, v)
		}
		sortItems(items, keyOf)
		mu.Lock()
		open = append(open, &snapRec{s, items})
		// close a random one (keeping a few open)
		for len(open) > 1+r.Intn(4) {
			i := r.Intn(len(open))
			open[i].s.Close()
			open = append(open[:i], open[i+1:]...)
		}
		mu.Unlock()
	}
	close(stop)
	wg.Wait()
	mu.Lock()
	for _, rec := range open {
		rec.s.Close()
	}
	open = nil
	mu.Unlock()
	db.GC()
	time.Sleep(20 * time.Millisecond)
	db.Close()
	what := ""
	sig := ""
	if b := bad.Load(); b != nil {
		what, sig = b.(string), "c01-concurrent-scan"
	}
	if arena != nil {
		if len(arena.BadFrees) > 0 && what == "" {
			what, sig = "allocator misuse under stress: "+arena.BadFrees[0], "c04-badfree"
		}
		if l := arena.Live(); len(l) > 0 && what == "" {
			what, sig = fmt.Sprintf("%d blocks still allocated after Close() (%d mallocs, %d frees)", len(l), arena.Mallocs, arena.Frees), "c07-leak-stress"
		}
		arena.Release()
	}
	idx := sink.Add(fmt.Sprintf("(* stress %d *)", in.Seed), in, fmt.Sprintf("stress-mm%v-cmp%d", in.MM, in.Cmp), scans >= 10)
	sink.meta.Distribution["stress-scans"] += int(scans)
	if what != "" {
		sink.Fail(idx, what, sig, in)
	}
}

func sortItems(items [][]byte, keyOf func([]byte) string) {
	for i := 1; i < len(items); i++ {
		for j := i; j > 0 && bytes.Compare([]byte(keyOf(items[j-1])), []byte(keyOf(items[j]))) > 0; j-- {
			items[j-1], items[j] = items[j], items[j-1]
		}
	}
}

func init() {
	commands["stress"] = func(a runArgs) error {
		installCounterHook()
		sink := NewSink(a.out, "C01", "", a.seed)
		sink.meta.Rule = "free-running goroutines (oracle only): writers mutate, snapshots are created and closed in random order, 3 readers scan random open snapshots with refresh rates {0,1,3,50}; each run 150..400 ms; non-trivial = >=10 completed concurrent scans"
		top := rand.New(rand.NewSource(a.seed))
		var fixed *stressInput
		if a.replay != "" {
			fixed = &stressInput{}
			if err := loadReplayCase(a.replay, fixed); err != nil {
				return err
			}
			a.n = 1
		}
		for i := 0; i < a.n; i++ {
			in := &stressInput{Seed: top.Int63(), MM: i%2 == 1, Cmp: (i / 2) % 2, Millis: 150 + top.Intn(250), Readers: 3, Writers: 1 + top.Intn(3)}
			if fixed != nil {
				in = fixed
			}
			sink.Begin(in)
			runStress(in, sink)
		}
		sink.cases = nil // no Coq cases for the stress runs
		return sink.Flush()
	}
}
