package main

import (
	"bytes"
	"fmt"
	"math/rand"
	"runtime"
	"strconv"
	"sync"
	"time"
)

// Deterministic one-goroutine-at-a-time scheduler driven by the verif yield hooks.
// A managed thread runs until it reaches a yield point whose label is in the mask (it parks
// there), or until it finishes its program. The scheduler then grants another thread.

const ptOpStart = 0

type schedEvent struct {
	tid   int
	point int
	fin   bool
}

type Sched struct {
	mu      sync.Mutex
	gids    map[int64]int
	mask    map[int]bool
	resume  []chan struct{}
	events  chan schedEvent
	fin     []bool
	parked  []int // label at which each thread is parked
	Trace   [][2]int
	Obs     []int           // Observe() after each step (aligned with Trace)
	Enabled [][]int         // enabled threads before each step (aligned with Trace)
	Observe func() int
	OnStep  func(tid, label int)
	Blocked func(tid int, point int) bool // optional: thread parked at point cannot be resumed now
	stall   bool
}

func goid() int64 {
	var buf [64]byte
	n := runtime.Stack(buf[:], false)
	// "goroutine 123 ["
	f := bytes.Fields(buf[:n])
	id, _ := strconv.ParseInt(string(f[1]), 10, 64)
	return id
}

func NewSched(nthreads int, points ...int) *Sched {
	s := &Sched{gids: map[int64]int{}, mask: map[int]bool{}, events: make(chan schedEvent, nthreads+1)}
	for _, p := range points {
		s.mask[p] = true
	}
	for i := 0; i < nthreads; i++ {
		s.resume = append(s.resume, make(chan struct{}))
		s.fin = append(s.fin, false)
		s.parked = append(s.parked, -1)
	}
	return s
}

// Hook is installed as VerifYieldHook.
func (s *Sched) Hook(p int) {
	if !s.mask[p] {
		return
	}
	s.mu.Lock()
	tid, ok := s.gids[goid()]
	s.mu.Unlock()
	if !ok {
		return
	}
	s.park(tid, p)
}

// Tid returns the managed thread id of the calling goroutine.
func (s *Sched) Tid() (int, bool) {
	s.mu.Lock()
	defer s.mu.Unlock()
	tid, ok := s.gids[goid()]
	return tid, ok
}

func (s *Sched) park(tid, p int) {
	s.events <- schedEvent{tid: tid, point: p}
	<-s.resume[tid]
}

// Go starts managed thread tid; body must call s.OpStart(tid) before every operation.
func (s *Sched) Go(tid int, body func()) {
	go func() {
		s.mu.Lock()
		s.gids[goid()] = tid
		s.mu.Unlock()
		body()
		s.events <- schedEvent{tid: tid, fin: true}
	}()
}

func (s *Sched) OpStart(tid int) { s.park(tid, ptOpStart) }

// waitEvent waits for the event of the thread that was just granted.
func (s *Sched) waitEvent() (schedEvent, bool) {
	select {
	case ev := <-s.events:
		return ev, true
	case <-time.After(20 * time.Second):
		s.stall = true
		return schedEvent{}, false
	}
}

// Run drives the threads. choose(enabled) picks the next thread among the enabled ones.
// Returns false if a granted thread neither parked nor finished within the watchdog time.
func (s *Sched) Run(n int, choose func(enabled []int) int, maxSteps int) bool {
	// initial: every thread parks at its first OpStart (or finishes)
	for i := 0; i < n; i++ {
		ev, ok := s.waitEvent()
		if !ok {
			return false
		}
		s.note(ev)
	}
	for step := 0; step < maxSteps; step++ {
		var enabled []int
		for i := 0; i < n; i++ {
			if !s.fin[i] && !(s.Blocked != nil && s.Blocked(i, s.parked[i])) {
				enabled = append(enabled, i)
			}
		}
		if len(enabled) == 0 {
			break
		}
		t := choose(enabled)
		s.Enabled = append(s.Enabled, append([]int(nil), enabled...))
		s.resume[t] <- struct{}{}
		ev, ok := s.waitEvent()
		if !ok {
			return false
		}
		if ev.tid != t {
			panic(fmt.Sprintf("scheduler: granted %d but %d reported", t, ev.tid))
		}
		s.note(ev)
		lab := ev.point
		if ev.fin {
			lab = ptOpStart
		}
		s.Trace = append(s.Trace, [2]int{t, lab})
		if s.Observe != nil {
			s.Obs = append(s.Obs, s.Observe())
		}
		if s.OnStep != nil {
			s.OnStep(t, lab)
		}
	}
	return true
}

func (s *Sched) note(ev schedEvent) {
	if ev.fin {
		s.fin[ev.tid] = true
		s.parked[ev.tid] = -1
	} else {
		s.parked[ev.tid] = ev.point
	}
}

func (s *Sched) AllFinished() bool {
	for _, f := range s.fin {
		if !f {
			return false
		}
	}
	return true
}

// Abandon releases every parked thread so that leftover goroutines can run to completion
// unscheduled (used after a stall or when the step budget ran out).
func (s *Sched) Abandon() {
	s.mu.Lock()
	s.mask = map[int]bool{}
	s.mu.Unlock()
	for i := range s.resume {
		if !s.fin[i] {
			select {
			case s.resume[i] <- struct{}{}:
			default:
			}
		}
	}
}

func randomChooser(r *rand.Rand, sticky int) func([]int) int {
	// sticky: probability (percent) to keep running the previously chosen thread if still enabled
	last := -1
	return func(en []int) int {
		if last >= 0 && r.Intn(100) < sticky {
			for _, e := range en {
				if e == last {
					return e
				}
			}
		}
		last = en[r.Intn(len(en))]
		return last
	}
}

func replayChooser(choices []int) func([]int) int {
	i := 0
	return func(en []int) int {
		if i < len(choices) {
			c := choices[i]
			i++
			for _, e := range en {
				if e == c {
					return c
				}
			}
		}
		return en[0]
	}
}


// nonPreemptive continues the running thread while it is enabled, else the lowest enabled one.
func nonPreemptiveAfter(prefix []int) func([]int) int {
	i := 0
	last := -1
	return func(en []int) int {
		if i < len(prefix) {
			c := prefix[i]
			i++
			for _, e := range en {
				if e == c {
					last = c
					return c
				}
			}
		}
		i++
		for _, e := range en {
			if e == last {
				return e
			}
		}
		last = en[0]
		return last
	}
}

// explorePrefix recovers the decision prefix behind a chooser produced by nonPreemptiveAfter (used when
// the schedule runs in another process): the chooser is probed with a universal enabled set.
func explorePrefix(ch func([]int) int) []int {
	return exploreCurrentPrefix
}

var exploreCurrentPrefix []int

// Explore enumerates schedules systematically (depth-first over alternative choices) with a bound on
// the number of preemptions (switching away from a thread that is still enabled). runOnce executes
// the case under the given chooser and returns the choices made and the enabled sets.
func Explore(bound, maxRuns int, runOnce func(chooser func([]int) int) (choices []int, enabled [][]int)) int {
	type item struct {
		prefix []int
	}
	stack := []item{{nil}}
	seen := map[string]bool{}
	runs := 0
	for len(stack) > 0 && runs < maxRuns {
		it := stack[len(stack)-1]
		stack = stack[:len(stack)-1]
		key := fmt.Sprint(it.prefix)
		if seen[key] {
			continue
		}
		seen[key] = true
		exploreCurrentPrefix = it.prefix
		choices, enabled := runOnce(nonPreemptiveAfter(it.prefix))
		runs++
		// count preemptions along the executed schedule and branch after the prefix
		pre := 0
		for pos := 0; pos < len(choices); pos++ {
			if pos > 0 && choices[pos] != choices[pos-1] {
				for _, e := range enabled[pos] {
					if e == choices[pos-1] {
						pre++
					}
				}
			}
			if pos < len(it.prefix) {
				continue
			}
			for _, alt := range enabled[pos] {
				if alt == choices[pos] {
					continue
				}
				cost := pre
				if pos > 0 {
					stillEnabled := false
					for _, e := range enabled[pos] {
						if e == choices[pos-1] {
							stillEnabled = true
						}
					}
					if stillEnabled && alt != choices[pos-1] && choices[pos] == choices[pos-1] {
						cost++
					}
				}
				if cost <= bound {
					np := append(append([]int(nil), choices[:pos]...), alt)
					stack = append(stack, item{np})
				}
			}
		}
	}
	return runs
}
