package main

import (
	"bytes"
	"encoding/json"
	"fmt"
	"math/rand"
	"os"
	"regexp"
	"sort"
	"strconv"
	"strings"
	"sync"
	"sync/atomic"
	"time"

	"github.com/couchbase/nitro"
	"github.com/couchbase/nitro/skiplist"
)

// ---------------------------------------------------------------------------------------------
// inputs

type mvOp struct {
	Op string `json:"op"` // put del get delnode neww snap open close gc drain scan count
	W  int    `json:"w,omitempty"`
	Bs []int  `json:"bs,omitempty"`
	ID int    `json:"id,omitempty"`
	Sn int    `json:"sn,omitempty"`
}

type itOp struct {
	Op   string `json:"op"` // first seek next refresh rate
	Bs   []int  `json:"bs,omitempty"`
	Rate int    `json:"rate,omitempty"`
}

type mvInput struct {
	Mode   string `json:"mode"` // mvcc | iter | visit
	Cmp    int    `json:"cmp"`  // 0 bytes.Compare on whole item, 1 CompareKV
	MM     bool   `json:"mm"`
	Ops    []mvOp `json:"ops"`
	Sn     int    `json:"sn,omitempty"`
	Script []itOp `json:"script,omitempty"`
	Shards int    `json:"shards,omitempty"`
	Conc   int    `json:"conc,omitempty"`
	ErrAt  int    `json:"err_at,omitempty"` // visit: callback fails at this delivery (1-based), 0 = never
	// when Ops is empty the case is regenerated from this seed (used to replay a crashed case)
	GenSeed int64 `json:"gen_seed,omitempty"`
	GenN    int   `json:"gen_n,omitempty"`
	Drains  bool  `json:"drains,omitempty"`
	Hasty   bool `json:"hasty,omitempty"` // Close() right after the last handles are closed, while their garbage is still being collected
	Iso     bool  `json:"iso,omitempty"` // re-scan every open snapshot after every mutating op
	Delta   bool  `json:"delta,omitempty"` // UseDeltaInterleaving
	Rate    int   `json:"rate,omitempty"`  // refresh rate of the Visitor's iterators (0 = the default 10000)
	Fine    bool  `json:"fine,omitempty"`  // delta runs: also pause the scan inside Iterator.Refresh
}

func b2i(bs []byte) []int {
	out := make([]int, len(bs))
	for i, b := range bs {
		out[i] = int(b)
	}
	return out
}
func i2b(xs []int) []byte {
	out := make([]byte, len(xs))
	for i, b := range xs {
		out[i] = byte(b)
	}
	return out
}

// ---------------------------------------------------------------------------------------------
// reference model (Go side): the oracle and the generator's notion of well-formed operations

type refVer struct {
	item       []byte
	born, dead uint32
	gone       bool // physically removed for certain (same-epoch delete) or handle no longer guaranteed valid
}

type refModel struct {
	cmp     int
	currSn  uint32
	vers    []*refVer        // by vid
	live    map[string]int   // key -> vid
	snapRef map[uint32]int   // sn -> refcount (0 = fully released)
	snapItm map[uint32][][]byte
	snapCnt map[uint32]int
	nw      int
	count   int // committed itemsCount (as of last snapshot)
	pending int // sum of writer counts
}

func newRef(cmp int) *refModel {
	return &refModel{cmp: cmp, currSn: 1, live: map[string]int{}, snapRef: map[uint32]int{}, snapItm: map[uint32][][]byte{}, snapCnt: map[uint32]int{}}
}

func (r *refModel) key(bs []byte) string {
	if r.cmp == 1 {
		k, _ := nitro.KVFromBytes(bs)
		return string(k)
	}
	return string(bs)
}

func (r *refModel) less(a, b []byte) bool { return r.key(a) < r.key(b) }

func (r *refModel) sortedLive() [][]byte {
	var out [][]byte
	for _, vid := range r.live {
		out = append(out, r.vers[vid].item)
	}
	sort.Slice(out, func(i, j int) bool { return r.less(out[i], out[j]) })
	return out
}

func (r *refModel) minOpen() (uint32, bool) {
	var m uint32
	ok := false
	for sn, c := range r.snapRef {
		if c > 0 && (!ok || sn < m) {
			m, ok = sn, true
		}
	}
	return m, ok
}

// handleValid: the node behind vid is guaranteed to be physically present
func (r *refModel) handleValid(vid int) bool {
	v := r.vers[vid]
	if v.gone {
		return false
	}
	if v.dead == 0 || v.dead == r.currSn {
		return true
	}
	m, ok := r.minOpen()
	return ok && m <= v.dead
}

// mustStay / mustGo classification at quiescence after a GC pass (C06 oracle)
func (r *refModel) visibleToOpen(v *refVer) bool {
	for sn, c := range r.snapRef {
		if c > 0 && v.born <= sn && (v.dead == 0 || v.dead > sn) {
			return true
		}
	}
	return false
}

var mvStatRe = regexp.MustCompile(`"(\w+)":\s+(-?\d+)`)

// ---------------------------------------------------------------------------------------------
// executor

var (
	hookGCSent, hookGCDone, hookFreeSent, hookFreeDone int64
)

var hookSlowGC int32

// gcBacklogInput is an explicit history in which one old snapshot stays open while [n] newer ones are
// created and closed (each retiring one deleted item), so that the pass after the old snapshot's Close
// hands over more garbage lists than the collector's channel holds while the workers are slow.
func gcBacklogInput(cmp int, mm bool, n int) *mvInput {
	in := &mvInput{Mode: "mvcc", Cmp: cmp, MM: mm, Drains: true}
	key := func(j int) []int {
		if cmp == 1 {
			return b2i(nitro.KVToBytes([]byte{byte(1 + j/250), byte(1 + j%250)}, []byte{7}))
		}
		return []int{1 + j/250, 1 + j%250}
	}
	in.Ops = append(in.Ops, mvOp{Op: "neww"})
	for j := 0; j < n+20; j++ {
		in.Ops = append(in.Ops, mvOp{Op: "put", W: 0, Bs: key(j)})
	}
	in.Ops = append(in.Ops, mvOp{Op: "snap"}) // snapshot 1 stays open
	for j := 0; j < n; j++ {
		in.Ops = append(in.Ops, mvOp{Op: "del", W: 0, Bs: key(j)}, mvOp{Op: "snap"}, mvOp{Op: "close", Sn: 2 + j})
	}
	in.Ops = append(in.Ops, mvOp{Op: "close", Sn: 1}, mvOp{Op: "gc"}, mvOp{Op: "drain", ID: 1}, mvOp{Op: "count"})
	return in
}

func installCounterHook() {
	nitro.VerifYieldHook = func(p int) {
		switch p {
		case nitro.VerifPtGCSent:
			atomic.AddInt64(&hookGCSent, 1)
		case nitro.VerifPtGCDone:
			atomic.AddInt64(&hookGCDone, 1)
			if atomic.LoadInt32(&hookSlowGC) != 0 {
				time.Sleep(300 * time.Microsecond) // backlog histories: the workers fall behind the collector
			}
		case nitro.VerifPtFreeSent:
			atomic.AddInt64(&hookFreeSent, 1)
		case nitro.VerifPtFreeDone:
			atomic.AddInt64(&hookFreeDone, 1)
		}
	}
}

type mvExec struct {
	liveIter bool // a long-lived iterator is open (it holds a barrier session)
	// the application side of Node.Link: every second node is kept in a NodeList (as an index would
	// chain the nodes of one hash bucket) and taken out of it right before it is deleted
	nl   *nitro.NodeList
	inNL map[int]bool
	in      *mvInput
	db      *nitro.Nitro
	arena   *Arena
	ws      []*nitro.Writer
	nodes   []*skiplist.Node
	nodeID  map[*skiplist.Node]int
	snaps   map[uint32]*nitro.Snapshot
	ref     *refModel
	coqOps  []string
	coqObs  []string
	bad     []string // oracle failures
	sig     string
	base    [4]int64
	stalled bool
}

func newExec(in *mvInput) *mvExec {
	e := &mvExec{in: in, nodeID: map[*skiplist.Node]int{}, snaps: map[uint32]*nitro.Snapshot{}, ref: newRef(in.Cmp)}
	cfg := nitro.DefaultConfig()
	if in.Cmp == 1 {
		cfg.SetKeyComparator(nitro.CompareKV)
	}
	if in.MM {
		e.arena = NewArena()
		cfg.UseMemoryMgmt(e.arena.Malloc, e.arena.Free)
	}
	if in.Delta {
		cfg.UseDeltaInterleaving()
	}
	if in.Rate > 0 {
		cfg.VerifSetRefreshRate(in.Rate)
	}
	e.base = [4]int64{atomic.LoadInt64(&hookGCSent), atomic.LoadInt64(&hookGCDone), atomic.LoadInt64(&hookFreeSent), atomic.LoadInt64(&hookFreeDone)}
	e.db = nitro.NewWithConfig(cfg)
	return e
}

func (e *mvExec) fail(sig, msg string) {
	if e.sig == "" {
		e.sig = sig
	}
	e.bad = append(e.bad, msg)
}

// quiesce waits until every garbage list handed to the workers has been processed (and, with
// user-managed memory, every queued free list has been freed).
func (e *mvExec) quiesce() bool {
	deadline := time.Now().Add(20 * time.Second)
	for {
		s, d := atomic.LoadInt64(&hookGCSent)-e.base[0], atomic.LoadInt64(&hookGCDone)-e.base[1]
		fs, fd := atomic.LoadInt64(&hookFreeSent)-e.base[2], atomic.LoadInt64(&hookFreeDone)-e.base[3]
		if s == d && (!e.in.MM || fs == fd) {
			return true
		}
		if time.Now().After(deadline) {
			return false
		}
		time.Sleep(200 * time.Microsecond)
	}
}

type physVer struct {
	item       []byte
	born, dead uint32
	vid        int
}

func (e *mvExec) physical() []physVer {
	st := e.db.VerifStore()
	var out []physVer
	n, _ := st.HeadNode().VerifNext(0)
	for n != st.TailNode() && n != nil {
		next, del := n.VerifNext(0)
		if !del {
			itm := nitro.VerifItemOf(n)
			out = append(out, physVer{append([]byte(nil), itm.Bytes()...), itm.VerifBornSn(), itm.VerifDeadSn(), e.nodeID[n]})
		}
		n = next
	}
	return out
}

func coqOptN(ok bool, v int) string {
	if !ok {
		return "None"
	}
	return fmt.Sprintf("(Some %d)", v)
}

func coqItems(items [][]byte) string {
	parts := make([]string, len(items))
	for i, it := range items {
		parts[i] = cBytes(it)
	}
	return cList(parts)
}

func (e *mvExec) scan(s *nitro.Snapshot) ([][]byte, bool) {
	it := s.NewIterator()
	if it == nil {
		return nil, false
	}
	var out [][]byte
	for it.SeekFirst(); it.Valid(); it.Next() {
		out = append(out, append([]byte(nil), it.Get()...))
	}
	it.Close()
	return out, true
}

func sameItems(a, b [][]byte) bool {
	if len(a) != len(b) {
		return false
	}
	for i := range a {
		if !bytes.Equal(a[i], b[i]) {
			return false
		}
	}
	return true
}

func (e *mvExec) apply(op mvOp) {
	r := e.ref
	switch op.Op {
	case "neww":
		e.ws = append(e.ws, e.db.NewWriter())
		r.nw++
		e.coqOps = append(e.coqOps, "NewWriter")
		e.coqObs = append(e.coqObs, "OUnit")
	case "put":
		bs := i2b(op.Bs)
		n := e.ws[op.W].Put2(bs)
		_, exists := r.live[r.key(bs)]
		if (n != nil) == exists {
			e.fail("c02-put", fmt.Sprintf("Put(%v) returned node=%v but a live item with an equal key exists=%v", bs, n != nil, exists))
		}
		e.coqOps = append(e.coqOps, fmt.Sprintf("Put %s %s", cNat(op.W), cBytes(bs)))
		if n != nil {
			vid := len(e.nodes)
			e.nodes = append(e.nodes, n)
			e.nodeID[n] = vid
			e.coqObs = append(e.coqObs, fmt.Sprintf("ONode (Some %d)", vid))
			if !exists {
				r.vers = append(r.vers, &refVer{item: bs, born: r.currSn})
				r.live[r.key(bs)] = vid
				r.pending++
				if vid%2 == 0 {
					if e.nl == nil {
						e.nl, e.inNL = nitro.NewNodeList(nil), map[int]bool{}
					}
					e.nl.Add(n)
					e.inNL[vid] = true
				}
			} else {
				r.vers = append(r.vers, &refVer{item: bs, born: r.currSn, gone: true})
			}
		} else {
			e.coqObs = append(e.coqObs, "ONode None")
		}
	case "get":
		bs := i2b(op.Bs)
		n := e.ws[op.W].GetNode(bs)
		vid, exists := r.live[r.key(bs)]
		id, known := e.nodeID[n]
		if (n != nil) != exists || (n != nil && (!known || id != vid)) {
			e.fail("c02-get", fmt.Sprintf("GetNode(%v) found=%v (node %d) but reference says live=%v (node %d)", bs, n != nil, id, exists, vid))
		}
		e.coqOps = append(e.coqOps, fmt.Sprintf("GetNode %s %s", cNat(op.W), cBytes(bs)))
		e.coqObs = append(e.coqObs, "ONode "+coqOptN(n != nil, id))
	case "del":
		bs := i2b(op.Bs)
		if v0, ex := r.live[r.key(bs)]; ex {
			e.nlRemove(v0)
		}
		n, ok := e.ws[op.W].Delete2(bs)
		vid, exists := r.live[r.key(bs)]
		id := e.nodeID[n]
		if ok != exists || (ok && id != vid) {
			e.fail("c02-del", fmt.Sprintf("Delete(%v) returned %v (node %d) but reference says live=%v (node %d)", bs, ok, id, exists, vid))
		}
		e.coqOps = append(e.coqOps, fmt.Sprintf("Delete %s %s", cNat(op.W), cBytes(bs)))
		e.coqObs = append(e.coqObs, fmt.Sprintf("ODel %s %s", coqOptN(n != nil, id), cBool(ok)))
		if ok && exists && id == vid {
			e.refDelete(vid)
		}
	case "delnode":
		n := e.nodes[op.ID]
		e.nlRemove(op.ID)
		ok := e.ws[op.W].DeleteNode(n)
		v := r.vers[op.ID]
		want := v.dead == 0 && !v.gone
		if ok != want {
			e.fail("c02-delnode", fmt.Sprintf("DeleteNode(node %d) returned %v but reference says the item is live=%v", op.ID, ok, want))
		}
		e.coqOps = append(e.coqOps, fmt.Sprintf("DeleteNode %s %d", cNat(op.W), op.ID))
		e.coqObs = append(e.coqObs, "OBool "+cBool(ok))
		if ok && want {
			e.refDelete(op.ID)
		}
	case "snap":
		s, err := e.db.NewSnapshot()
		if err != nil {
			panic(err)
		}
		sn := s.VerifSn()
		e.snaps[sn] = s
		r.count += r.pending
		r.pending = 0
		items := r.sortedLive()
		r.snapItm[sn] = items
		r.snapRef[sn] = 1
		r.snapCnt[sn] = len(items)
		if sn != r.currSn {
			e.fail("c02-snap", fmt.Sprintf("snapshot number %d, expected %d", sn, r.currSn))
		}
		r.currSn++
		if int(s.Count()) != len(items) || int(e.db.ItemsCount()) != len(items) {
			e.fail("c02-count", fmt.Sprintf("snapshot %d: Count()=%d ItemsCount()=%d but the reference set holds %d items", sn, s.Count(), e.db.ItemsCount(), len(items)))
		}
		e.coqOps = append(e.coqOps, "NewSnapshot")
		e.coqObs = append(e.coqObs, fmt.Sprintf("OSnap %d %s", sn, cZ(s.Count())))
	case "open":
		s := e.snaps[uint32(op.Sn)]
		ok := s.Open()
		want := r.snapRef[uint32(op.Sn)] > 0
		if ok != want {
			e.fail("c08-open", fmt.Sprintf("Open(snapshot %d) returned %v, reference refcount %d", op.Sn, ok, r.snapRef[uint32(op.Sn)]))
		}
		if ok {
			r.snapRef[uint32(op.Sn)]++
		}
		e.coqOps = append(e.coqOps, fmt.Sprintf("OpenSnap %d", op.Sn))
		e.coqObs = append(e.coqObs, "OBool "+cBool(ok))
	case "close":
		e.snaps[uint32(op.Sn)].Close()
		r.snapRef[uint32(op.Sn)]--
		e.coqOps = append(e.coqOps, fmt.Sprintf("CloseSnap %d", op.Sn))
		e.coqObs = append(e.coqObs, "OUnit")
	case "gc":
		e.db.GC()
		e.coqOps = append(e.coqOps, "GC")
		e.coqObs = append(e.coqObs, "OUnit")
	case "drain":
		if !e.quiesce() {
			e.stalled = true
			e.fail("c06-stall", "collection/free workers did not reach quiescence within 20s")
		}
		ph := e.physical()
		var parts []string
		for _, p := range ph {
			parts = append(parts, fmt.Sprintf("(%s, %d, %d)", cBytes(p.item), p.born, p.dead))
		}
		e.coqOps = append(e.coqOps, "Drain")
		e.coqObs = append(e.coqObs, "OPhys "+cList(parts))
		e.checkPhysical(ph, op.ID == 1)
	case "scan":
		s := e.snaps[uint32(op.Sn)]
		items, ok := e.scan(s)
		want := r.snapRef[uint32(op.Sn)] > 0
		if ok != want {
			e.fail("c08-iter", fmt.Sprintf("NewIterator(snapshot %d) ok=%v, reference refcount %d", op.Sn, ok, r.snapRef[uint32(op.Sn)]))
		}
		if ok && want && !sameItems(items, r.snapItm[uint32(op.Sn)]) {
			e.fail("c01-scan", fmt.Sprintf("scan of open snapshot %d returned %d items %v, the items live at its creation were %d: %v", op.Sn, len(items), items, len(r.snapItm[uint32(op.Sn)]), r.snapItm[uint32(op.Sn)]))
		}
		if ok && want && int(s.Count()) != len(r.snapItm[uint32(op.Sn)]) {
			e.fail("c01-count", fmt.Sprintf("snapshot %d Count()=%d but it held %d items", op.Sn, s.Count(), len(r.snapItm[uint32(op.Sn)])))
		}
		e.coqOps = append(e.coqOps, fmt.Sprintf("Scan %d", op.Sn))
		if ok {
			e.coqObs = append(e.coqObs, "OItems (Some "+coqItems(items)+")")
		} else {
			e.coqObs = append(e.coqObs, "OItems None")
		}
	case "count":
		c := e.db.ItemsCount()
		if int(c) != r.count {
			e.fail("c02-itemscount", fmt.Sprintf("ItemsCount()=%d, reference %d", c, r.count))
		}
		e.coqOps = append(e.coqOps, "ItemsCount")
		e.coqObs = append(e.coqObs, "OCount "+cZ(c))
	default:
		panic("unknown op " + op.Op)
	}
}

// nlRemove takes a node out of the application's NodeList (it comes back with its Link still set)
func (e *mvExec) nlRemove(vid int) {
	if e.inNL == nil || !e.inNL[vid] {
		return
	}
	delete(e.inNL, vid)
	got := e.nl.Remove(e.ref.vers[vid].item)
	if got != e.nodes[vid] {
		e.fail("c20-nodelist", fmt.Sprintf("NodeList.Remove(%v) returned a different node than the one added for it", e.ref.vers[vid].item))
	}
}

func (e *mvExec) refDelete(vid int) {
	r := e.ref
	v := r.vers[vid]
	delete(r.live, r.key(v.item))
	r.pending--
	if v.born == r.currSn {
		v.gone = true
		v.dead = r.currSn // never visible to any snapshot
	} else {
		v.dead = r.currSn
	}
}

// C06 oracle at quiescence. afterGC: a GC() pass was forced just before.
func (e *mvExec) checkPhysical(ph []physVer, afterGC bool) {
	r := e.ref
	present := map[int]int{}
	for _, p := range ph {
		present[p.vid]++
	}
	minOpen, anyOpen := r.minOpen()
	for vid, v := range r.vers {
		k := vid
		mustStay := !v.gone && (v.dead == 0 || r.visibleToOpen(v) || v.dead == r.currSn)
		mustGo := v.gone || (afterGC && v.dead != 0 && v.dead < r.currSn && (!anyOpen || minOpen > v.dead))
		if mustStay && present[k] == 0 {
			e.fail("c06-precision", fmt.Sprintf("version #%d %v (born %d dead %d) is live or visible to an open snapshot but is no longer in the store", vid, v.item, v.born, v.dead))
		}
		if mustGo && !mustStay && present[k] > 0 {
			e.fail("c06-complete", fmt.Sprintf("version #%d %v (born %d dead %d) can be seen by no open snapshot, all earlier snapshots are closed and a GC pass ran, but it is still in the store", vid, v.item, v.born, v.dead))
		}
	}
	// statistics against the walk (C14 / C06: node count, memory, allocations minus frees)
	if afterGC {
		st := e.db.VerifStore()
		var mem int64
		n, _ := st.HeadNode().VerifNext(0)
		cnt := 0
		for n != st.TailNode() && n != nil {
			next, del := n.VerifNext(0)
			if !del {
				mem += int64(st.Size(n))
				cnt++
			}
			n = next
		}
		stats := map[string]int64{}
		for _, m := range mvStatRe.FindAllStringSubmatch(e.db.DumpStats(), -1) {
			v, _ := strconv.ParseInt(m[2], 10, 64)
			stats[m[1]] = v
		}
		if int(stats["node_count"]) != cnt || stats["soft_deletes"] != 0 {
			e.fail("c14-stats", fmt.Sprintf("statistics at quiescence: node_count=%d soft_deletes=%d, a walk of level 0 finds %d nodes", stats["node_count"], stats["soft_deletes"], cnt))
		}
		if stats["memory_used"] != mem {
			e.fail("c14-stats", fmt.Sprintf("statistics at quiescence: memory_used=%d, the linked nodes and their items account for %d bytes", stats["memory_used"], mem))
		}
		// an open iterator holds a barrier session: nodes unlinked meanwhile are rightly not yet freed
		if e.in.MM && !e.liveIter && stats["node_allocs"]-stats["node_frees"] != int64(cnt) {
			e.fail("c14-stats", fmt.Sprintf("statistics at quiescence: node_allocs-node_frees=%d, %d nodes are linked", stats["node_allocs"]-stats["node_frees"], cnt))
		}
	}
	for k, c := range present {
		if c > 1 {
			e.fail("c14-dup", fmt.Sprintf("version #%d is linked twice at level 0", k))
		}
	}
}

// finish closes every handle and the instance; returns allocator ledger problems (C07).
func (e *mvExec) finish() {
	if e.in.Hasty && skiplist.VerifYieldHook == nil {
		// the collection workers are slowed down inside FlushSession so that Close() really overlaps them
		skiplist.VerifYieldHook = func(p int) {
			if p == skiplist.VerifPtFlushLoaded {
				time.Sleep(time.Millisecond)
			}
		}
		defer func() { skiplist.VerifYieldHook = nil }()
	}
	for sn, c := range e.ref.snapRef {
		for ; c > 0; c-- {
			e.snaps[sn].Close()
		}
		e.ref.snapRef[sn] = 0
	}
	if !e.in.Hasty {
		e.db.GC()
		if !e.stalled {
			e.quiesce()
		}
	}
	e.db.Close()
	if e.arena != nil {
		if len(e.arena.BadFrees) > 0 {
			e.fail("c07-badfree", "allocator misuse: "+strings.Join(e.arena.BadFrees, "; "))
		}
		if l := e.arena.Live(); len(l) > 0 {
			e.fail("c07-leak", fmt.Sprintf("%d blocks (sizes %v) were never returned to the allocator after all handles were closed and Close() returned (%d mallocs, %d frees)", len(l), l, e.arena.Mallocs, e.arena.Frees))
		}
		e.arena.Release()
	}
}

func (e *mvExec) coqOpsList() string { return cList(e.coqOps) }
func (e *mvExec) coqObsList() string { return cList(e.coqObs) }

// ---------------------------------------------------------------------------------------------
// generator: produces histories that are well-formed w.r.t. the reference model, online

type mvGen struct {
	r      *rand.Rand
	e      *mvExec
	nkeys  int
	ops    []mvOp
	valLen int
	protect uint32 // the last handle of this snapshot is not closed (a live iterator is reading it)
}

func (g *mvGen) item(k int) []byte {
	key := []byte{byte('a' + k)}
	if g.r.Intn(6) == 0 {
		key = append(key, byte('a'+g.r.Intn(2)))
	}
	if g.e.in.Cmp == 1 {
		v := make([]byte, g.r.Intn(3))
		for i := range v {
			v[i] = byte('0' + g.r.Intn(10))
		}
		return nitro.KVToBytes(key, v)
	}
	return key
}

func (g *mvGen) do(op mvOp) {
	g.ops = append(g.ops, op)
	g.e.apply(op)
}

func (g *mvGen) openSnaps() []uint32 {
	var out []uint32
	for sn, c := range g.e.ref.snapRef {
		if c > 0 {
			out = append(out, sn)
		}
	}
	sort.Slice(out, func(i, j int) bool { return out[i] < out[j] })
	return out
}

func (g *mvGen) step(allowDrain bool) {
	r := g.r
	ref := g.e.ref
	w := r.Intn(ref.nw)
	x := r.Intn(100)
	switch {
	case x < 30:
		g.do(mvOp{Op: "put", W: w, Bs: b2i(g.item(r.Intn(g.nkeys)))})
	case x < 45:
		// delete, biased to live keys
		if len(ref.live) > 0 && r.Intn(4) > 0 {
			for _, vid := range ref.live {
				g.do(mvOp{Op: "del", W: w, Bs: b2i(ref.vers[vid].item)})
				return
			}
		}
		g.do(mvOp{Op: "del", W: w, Bs: b2i(g.item(r.Intn(g.nkeys)))})
	case x < 52:
		g.do(mvOp{Op: "get", W: w, Bs: b2i(g.item(r.Intn(g.nkeys)))})
	case x < 60:
		// DeleteNode through a (possibly stale but still valid) handle
		var cands []int
		for vid := range ref.vers {
			if ref.handleValid(vid) {
				cands = append(cands, vid)
			}
		}
		if len(cands) > 0 {
			g.do(mvOp{Op: "delnode", W: w, ID: cands[r.Intn(len(cands))]})
		}
	case x < 72:
		g.do(mvOp{Op: "snap"})
	case x < 80:
		if os := g.openSnaps(); len(os) > 0 {
			sn := os[r.Intn(len(os))]
			if g.protect != 0 && sn == g.protect && ref.snapRef[sn] <= 1 {
				return
			}
			g.do(mvOp{Op: "close", Sn: int(sn)})
		}
	case x < 84:
		// Open any snapshot ever created (released ones must refuse)
		if len(ref.snapRef) > 0 {
			var all []uint32
			for sn := range ref.snapRef {
				all = append(all, sn)
			}
			sort.Slice(all, func(i, j int) bool { return all[i] < all[j] })
			g.do(mvOp{Op: "open", Sn: int(all[r.Intn(len(all))])})
		}
	case x < 92:
		if r.Intn(6) == 0 && len(ref.snapRef) > 0 {
			// a scan of any snapshot ever created: NewIterator on a released one must refuse (and must
			// not keep anything — a barrier session, a reference — behind)
			var all []uint32
			for sn := range ref.snapRef {
				all = append(all, sn)
			}
			sort.Slice(all, func(i, j int) bool { return all[i] < all[j] })
			g.do(mvOp{Op: "scan", Sn: int(all[r.Intn(len(all))])})
			return
		}
		if os := g.openSnaps(); len(os) > 0 {
			g.do(mvOp{Op: "scan", Sn: int(os[r.Intn(len(os))])})
		}
	case x < 94:
		g.do(mvOp{Op: "count"})
	case x < 96:
		g.do(mvOp{Op: "gc"})
	default:
		if allowDrain {
			g.do(mvOp{Op: "gc"})
			g.do(mvOp{Op: "drain", ID: 1})
		}
	}
}

func mvGenerate(r *rand.Rand, in *mvInput, n int, drains bool) *mvExec {
	e := newExec(in)
	g := &mvGen{r: r, e: e, nkeys: 3 + r.Intn(6)}
	nw := 1 + r.Intn(3)
	for i := 0; i < nw; i++ {
		g.do(mvOp{Op: "neww"})
	}
	for i := 0; i < n; i++ {
		before := len(g.ops)
		g.step(drains)
		if in.Iso && len(g.ops) > before {
			switch g.ops[len(g.ops)-1].Op {
			case "put", "del", "delnode", "close", "gc", "snap", "drain":
				for _, sn := range g.openSnaps() {
					g.do(mvOp{Op: "scan", Sn: int(sn)})
				}
			}
		}
	}
	in.Ops = g.ops
	return e
}

func mvReplay(in *mvInput) *mvExec {
	e := newExec(in)
	for _, op := range in.Ops {
		e.apply(op)
	}
	return e
}

// ---------------------------------------------------------------------------------------------
// modes

func mvNontrivial(e *mvExec) bool {
	// a cross-epoch delete followed by a re-insert of the same key, with >= 2 snapshots
	r := e.ref
	if len(r.snapRef) < 2 {
		return false
	}
	dead := map[string]bool{}
	for _, v := range r.vers {
		if v.dead != 0 && !v.gone {
			dead[r.key(v.item)] = true
		}
	}
	for _, v := range r.vers {
		if dead[r.key(v.item)] && v.dead == 0 {
			return true
		}
	}
	return len(dead) > 0
}

func runMvcc(in *mvInput, r *rand.Rand, n int, sink *CaseSink, replay bool, drains bool) {
	var e *mvExec
	if replay {
		e = mvReplay(in)
	} else {
		e = mvGenerate(r, in, n, drains)
	}
	// final: scan all open snapshots (isolation after the whole history), then quiescent physical state
	if !replay {
		for _, sn := range (&mvGen{e: e}).openSnaps() {
			op := mvOp{Op: "scan", Sn: int(sn)}
			in.Ops = append(in.Ops, op)
			e.apply(op)
		}
		if drains {
			for _, op := range []mvOp{{Op: "gc"}, {Op: "drain", ID: 1}} {
				in.Ops = append(in.Ops, op)
				e.apply(op)
			}
		}
	}
	coq := fmt.Sprintf("CMvcc %d %s %s", in.Cmp, e.coqOpsList(), e.coqObsList())
	kind := fmt.Sprintf("mvcc-cmp%d-mm%v", in.Cmp, in.MM)
	idx := sink.Add(coq, in, kind, mvNontrivial(e))
	e.finish()
	if len(e.bad) > 0 {
		sink.Fail(idx, e.bad[0], e.sig, in)
	}
}

// iterator scripts (C09)
func runIter(in *mvInput, r *rand.Rand, n int, sink *CaseSink, replay bool) {
	var e *mvExec
	if replay {
		e = mvReplay(in)
	} else {
		e = mvGenerate(r, in, n, false)
		// make sure at least one snapshot is open
		if len((&mvGen{e: e}).openSnaps()) == 0 {
			op := mvOp{Op: "snap"}
			in.Ops = append(in.Ops, op)
			e.apply(op)
		}
		os := (&mvGen{e: e}).openSnaps()
		in.Sn = int(os[r.Intn(len(os))])
	}
	snap := e.snaps[uint32(in.Sn)]
	view := e.ref.snapItm[uint32(in.Sn)]
	it := snap.NewIterator()
	var obs, script []string
	pos := -1 // expected index into view; -1 = unpositioned
	positioned := false
	observe := func() {
		v := it.Valid()
		if v {
			bs := append([]byte(nil), it.Get()...)
			id := e.nodeID[it.GetNode()]
			obs = append(obs, fmt.Sprintf("(true, Some (%s, %d))", cBytes(bs), id))
			if pos >= len(view) || !bytes.Equal(view[pos], bs) {
				e.fail("c09-pos", fmt.Sprintf("iterator on snapshot %d stands on %v but the visible item at that position is %v (index %d of %d)", in.Sn, bs, func() interface{} {
					if pos < len(view) {
						return view[pos]
					}
					return "<end>"
				}(), pos, len(view)))
			}
		} else {
			obs = append(obs, "(false, None)")
			if pos < len(view) {
				e.fail("c09-valid", fmt.Sprintf("iterator on snapshot %d is invalid but %d visible items remain from index %d", in.Sn, len(view)-pos, pos))
			}
		}
	}
	doOp := func(op itOp) {
		switch op.Op {
		case "first":
			it.SeekFirst()
			pos = 0
			positioned = true
			script = append(script, "ISeekFirst")
		case "seek":
			bs := i2b(op.Bs)
			it.Seek(bs)
			pos = sort.Search(len(view), func(i int) bool { return !e.ref.less(view[i], bs) })
			positioned = true
			script = append(script, "ISeek "+cBytes(bs))
		case "next":
			it.Next()
			pos++
			script = append(script, "INext")
		case "refresh":
			it.Refresh()
			script = append(script, "IRefresh")
		case "rate":
			it.SetRefreshRate(op.Rate)
			script = append(script, "ISetRate "+cZ(int64(op.Rate)))
		}
		if positioned {
			observe()
		} else {
			obs = append(obs, "(false, None)")
		}
	}
	if replay {
		for _, op := range in.Script {
			if op.Op == "next" && !(positioned && it.Valid()) {
				continue
			}
			if (op.Op == "refresh") && !positioned {
				continue
			}
			doOp(op)
		}
	} else {
		g := &mvGen{r: r, e: e, nkeys: 9}
		m := 4 + r.Intn(25)
		for i := 0; i < m; i++ {
			var op itOp
			x := r.Intn(100)
			switch {
			case !positioned || x < 8:
				op = itOp{Op: "first"}
				if positioned || r.Intn(2) == 0 {
					if r.Intn(2) == 0 {
						op = itOp{Op: "seek", Bs: b2i(g.item(r.Intn(10)))}
					}
				}
			case x < 20:
				op = itOp{Op: "seek", Bs: b2i(g.item(r.Intn(10)))}
			case x < 30:
				op = itOp{Op: "rate", Rate: []int{0, 1, 2, 3, 7}[r.Intn(5)]}
			case x < 45:
				op = itOp{Op: "refresh"}
			default:
				if !it.Valid() {
					continue
				}
				op = itOp{Op: "next"}
			}
			in.Script = append(in.Script, op)
			doOp(op)
		}
	}
	it.Close()
	// the model's iterator starts unpositioned with Valid = false; drop leading rate ops' observations
	coq := fmt.Sprintf("CIter %d %s %d %s %s", in.Cmp, e.coqOpsList(), in.Sn, cList(script), cList(obs))
	hidden := false
	for _, v := range e.ref.vers {
		if !v.gone && (v.born > uint32(in.Sn) || (v.dead != 0 && v.dead <= uint32(in.Sn))) {
			hidden = true
		}
	}
	idx := sink.Add(coq, in, fmt.Sprintf("iter-cmp%d-mm%v", in.Cmp, in.MM), hidden && len(view) >= 2)
	e.finish()
	if len(e.bad) > 0 {
		sink.Fail(idx, e.bad[0], e.sig, in)
	}
}

// visitor (C10)
func runVisit(in *mvInput, r *rand.Rand, n int, sink *CaseSink, replay bool) {
	var e *mvExec
	if replay {
		e = mvReplay(in)
	} else {
		e = mvGenerate(r, in, n, false)
		if len((&mvGen{e: e}).openSnaps()) == 0 {
			op := mvOp{Op: "snap"}
			in.Ops = append(in.Ops, op)
			e.apply(op)
		}
		os := (&mvGen{e: e}).openSnaps()
		in.Sn = int(os[r.Intn(len(os))])
		if r.Intn(3) == 0 {
			in.Sn = int(os[0]) // oldest: most invisible newer versions around
		}
		in.Shards = []int{1, 2, 3, 4, 5, 8, 16, 64}[r.Intn(8)]
		in.Conc = []int{1, 2, 8}[r.Intn(3)]
		if r.Intn(4) == 0 {
			in.ErrAt = 1 + r.Intn(6)
			if r.Intn(2) == 0 {
				// every delivery fails: every worker goroutine gives up while shards are still queued
				in.ErrAt = -1
				in.Shards = []int{16, 64}[r.Intn(2)]
				in.Conc = []int{1, 2}[r.Intn(2)]
				// enough items for more shards than twice the workers
				g := &mvGen{r: r, e: e, nkeys: 26, ops: in.Ops}
				for k := 0; k < 60; k++ {
					g.do(mvOp{Op: "put", W: 0, Bs: b2i(append(g.item(r.Intn(26)), byte('a'+k%26), byte('0'+k/26)))})
				}
				g.do(mvOp{Op: "snap"})
				in.Ops = g.ops
				in.Sn = int(e.ref.currSn - 1)
			}
		}
	}
	e.quiesce()
	snap := e.snaps[uint32(in.Sn)]
	view := e.ref.snapItm[uint32(in.Sn)]
	// the pivots the visitor is going to use (deterministic at quiescence)
	st := e.db.VerifStore()
	barrier := st.GetAccesBarrier()
	tok := barrier.Acquire()
	ptrs := st.GetRangeSplitItems(in.Shards)
	var pivots []string
	for _, p := range ptrs {
		itm := (*nitro.Item)(p)
		pivots = append(pivots, fmt.Sprintf("(%s, %d)", cBytes(itm.Bytes()), itm.VerifBornSn()))
	}
	barrier.Release(tok)
	var mu sync.Mutex
	got := map[int][][]byte{}
	deliveries := 0
	maxShard := -1
	done := make(chan error, 1)
	go func() {
		done <- e.db.Visitor(snap, func(itm *nitro.Item, shard int) error {
			mu.Lock()
			defer mu.Unlock()
			deliveries++
			if in.ErrAt == -1 || (in.ErrAt > 0 && deliveries == in.ErrAt) {
				return fmt.Errorf("injected")
			}
			got[shard] = append(got[shard], append([]byte(nil), itm.Bytes()...))
			if shard > maxShard {
				maxShard = shard
			}
			return nil
		}, in.Shards, in.Conc)
	}()
	var verr error
	select {
	case verr = <-done:
	case <-time.After(20 * time.Second):
		e.fail("c10-hang", "Visitor did not terminate within 20s")
		verr = fmt.Errorf("hang")
	}
	if in.ErrAt != 0 {
		// only the oracle: an error must be reported when the callback failed
		if ((in.ErrAt > 0 && deliveries >= in.ErrAt) || (in.ErrAt == -1 && deliveries >= 1)) && verr == nil {
			e.fail("c10-error", fmt.Sprintf("callback failed at delivery %d but Visitor returned nil", in.ErrAt))
		}
		sink.Count("visit-error-placement", 1)
	} else {
		var shards []string
		var all [][]byte
		for s := 0; s <= maxShard; s++ {
			shards = append(shards, coqItems(got[s]))
			for i := 1; i < len(got[s]); i++ {
				if !e.ref.less(got[s][i-1], got[s][i]) {
					e.fail("c10-order", fmt.Sprintf("shard %d delivered %v after %v", s, got[s][i], got[s][i-1]))
				}
			}
			all = append(all, got[s]...)
		}
		if verr != nil {
			e.fail("c10-err", fmt.Sprintf("Visitor returned %v without a callback error", verr))
		}
		if !sameItems(all, view) {
			e.fail("c10-partition", fmt.Sprintf("Visitor with %d shards delivered %d items over all shards, the snapshot holds %d; deliveries in shard order %v, snapshot %v", in.Shards, len(all), len(view), all, view))
		}
		coq := fmt.Sprintf("CVisit %d true %s %d %s %s %s", in.Cmp, e.coqOpsList(), in.Sn, cZ(10000), cList(pivots), cList(shards))
		multi := false
		seen := map[string]int{}
		for _, v := range e.ref.vers {
			if !v.gone {
				seen[e.ref.key(v.item)]++
				if seen[e.ref.key(v.item)] > 1 {
					multi = true
				}
			}
		}
		idx := sink.Add(coq, in, fmt.Sprintf("visit-shards%d", in.Shards), multi && len(view) >= 2 && in.Shards > 1)
		if len(e.bad) > 0 {
			sink.Fail(idx, e.bad[0], e.sig, in)
			e.bad = nil
		}
	}
	e.finish()
	if len(e.bad) > 0 {
		sink.Fail(-1, e.bad[0], e.sig, in)
	}
}

func mvCommand(prop, mode string, rule string) func(a runArgs) error {
	return mvCommandTie(prop, mode, "Tie.MvccTie", rule)
}

func mvCommandTie(prop, mode, tie string, rule string) func(a runArgs) error {
	return func(a runArgs) error {
		installCounterHook()
		sink := NewSink(a.out, prop, tie, a.seed)

		sink.perFile = 60
		sink.meta.Rule = rule
		if a.replay != "" {
			bs, err := os.ReadFile(a.replay)
			if err != nil {
				return err
			}
			var rp struct {
				Case mvInput `json:"case"`
			}
			if err := json.Unmarshal(bs, &rp); err != nil {
				return err
			}
			in := rp.Case
			regen := len(in.Ops) == 0 && in.GenSeed != 0
			var r *rand.Rand
			if regen {
				r = rand.New(rand.NewSource(in.GenSeed))
			}
			switch in.Mode {
			case "backup":
				runBackup(&in, r, in.GenN, sink, !regen)
			case "iter":
				runIter(&in, r, in.GenN, sink, !regen)
			case "live":
				runLive(&in, r, in.GenN, sink)
			case "delta":
				runDelta(&in, r, in.GenN, sink)
				if in.Fine {
					sink.cases = nil
				}
			case "visit":
				runVisit(&in, r, in.GenN, sink, !regen)
			default:
				runMvcc(&in, r, in.GenN, sink, !regen, in.Drains)
			}
			return sink.Flush()
		}
		top := rand.New(rand.NewSource(a.seed))
		for i := 0; i < a.n; i++ {
			gs := top.Int63()
			r := rand.New(rand.NewSource(gs))
			n := 10 + top.Intn(70)
			in := &mvInput{Mode: mode, Cmp: i % 2, MM: i%4 >= 2, GenSeed: gs, GenN: n}
			switch mode {
			case "iter":
				sink.Begin(in)
				runIter(in, r, n, sink, false)
			case "live":
				in.GenN = 10 + n/2
				sink.Begin(in)
				runLive(in, r, in.GenN, sink)
			case "delta", "delta-fine":
				in.Mode = "delta"
				in.GenN = 6 + n/4
				in.MM = (i/2)%2 == 1
				in.Rate = []int{0, 1, 2, 3}[top.Intn(4)]
				if mode == "delta-fine" {
					in.Fine = true
					in.MM = true
					in.Rate = 1 + top.Intn(3)
				}
				sink.Begin(in)
				runDelta(in, r, in.GenN, sink)
			case "visit":
				sink.Begin(in)
				runVisit(in, r, n, sink, false)
			case "gc":
				in.Mode = "mvcc"
				in.Drains = true
				if i%150 == 0 {
					in = gcBacklogInput(in.Cmp, in.MM, 270+top.Intn(60))
					sink.Begin(in)
					atomic.StoreInt32(&hookSlowGC, 1)
					runMvcc(in, r, 0, sink, true, true)
					atomic.StoreInt32(&hookSlowGC, 0)
					break
				}
				sink.Begin(in)
				runMvcc(in, r, n, sink, false, true)
			case "backup":
				in.MM = (i/2)%2 == 1
				sink.Begin(in)
				runBackup(in, r, n, sink, false)
			case "alloc":
				in.Mode = "mvcc"
				in.MM = true
				in.Drains = true
				in.Hasty = i%3 == 1
				sink.Begin(in)
				runMvcc(in, r, n, sink, false, true)
			case "iso":
				in.Mode = "mvcc"
				in.Iso = true
				in.GenN = 8 + n/2
				in.Drains = top.Intn(2) == 0
				sink.Begin(in)
				runMvcc(in, r, in.GenN, sink, false, in.Drains)
			default:
				sink.Begin(in)
				runMvcc(in, r, n, sink, false, false)
			}
		}
		return sink.Flush()
	}
}

// exhaustive small-scope check of the derived comparators (a mutated comparison operator cannot hide)
func cmpsCommand(a runArgs) error {
	sink := NewSink(a.out, "C02", "Tie.MvccTie", a.seed)
	sink.perFile = 2000
	sink.meta.Rule = "EXHAUSTIVE: insert / iterator / exists comparators on all pairs of items from {'', a, ab, b} x bornSn 0..3 x deadSn 0..2, for bytes.Compare and CompareKV (values differing for equal keys); non-trivial = every case"
	for cmp := 0; cmp < 2; cmp++ {
		cfg := nitro.DefaultConfig()
		if cmp == 1 {
			cfg.SetKeyComparator(nitro.CompareKV)
		}
		db := nitro.NewWithConfig(cfg)
		keys := [][]byte{{}, {'a'}, {'a', 'b'}, {'b'}}
		mk := func(k []byte, v int) []byte {
			if cmp == 1 {
				return nitro.KVToBytes(k, []byte{byte('0' + v)})
			}
			return k
		}
		for which := 0; which < 3; which++ {
			for i, ka := range keys {
				for j, kb := range keys {
					for ab := uint32(0); ab < 4; ab++ {
						for bb := uint32(0); bb < 4; bb++ {
							for ad := uint32(0); ad < 3; ad++ {
								for bd := uint32(0); bd < 3; bd++ {
									if which != 2 && (ad != 0 || bd != 0) {
										continue
									}
									if which == 1 && (ab != 0 || bb != 0) {
										continue
									}
									x, y := mk(ka, i), mk(kb, j+1)
									got := sign(db.VerifCmp(which, x, ab, ad, y, bb, bd))
									coq := fmt.Sprintf("CCmp %d %d %s %d %d %s %d %d %s", cmp, which, cBytes(x), ab, ad, cBytes(y), bb, bd, cZ(int64(got)))
									sink.Add(coq, map[string]interface{}{"cmp": cmp, "which": which, "a": x, "aborn": ab, "adead": ad, "b": y, "bborn": bb, "bdead": bd}, fmt.Sprintf("cmp%d-which%d", cmp, which), true)
								}
							}
						}
					}
				}
			}
		}
		db.Close()
	}
	sink.meta.Extra = map[string]interface{}{"exhaustive": true}
	return sink.Flush()
}

func init() {
	commands["cmps"] = cmpsCommand
	commands["mvcc"] = mvCommand("C02", "mvcc", "random well-formed histories (10..80 ops, 3..8 keys, 1..3 writers, both comparators, Go-managed and guard-allocator memory): Put/Delete/GetNode/DeleteNode through possibly stale handles/NewSnapshot/Open/Close in random order/GC/Scan/ItemsCount, every open snapshot re-scanned at the end; non-trivial = >=2 snapshots and some key has a dead-but-present version (cross-epoch delete), distinct by Coq term")
	commands["mvcc-iso"] = mvCommand("C01", "iso", "random well-formed histories as for C02 (both comparators, both memory modes, 1..3 writers, random snapshot close order, real collection workers running) in which EVERY open snapshot is re-scanned after every Put/Delete/DeleteNode/Close/GC/NewSnapshot and compared with the content recorded at its creation; non-trivial = >=2 snapshots and some key has a dead-but-present version")
	commands["mvcc-backup"] = mvCommand("C05", "backup", "a generated history (both comparators, both memory modes), StoreToDisk of a random open snapshot (often the oldest) with concurrency 1/2/8, the real range pivots fed to the model, LoadFromDisk into a fresh instance with the same configuration; compared: the shard files and recorded checksums byte for byte, the restored content, then a further 15..40-op history on the restored instance against the model started from the restored state; non-trivial = some key has several physical versions and the snapshot holds >=2 items")
	commands["mvcc-alloc"] = mvCommand("C07", "alloc", "histories as for C06 with user-managed memory on the guard allocator (every block its own mmap, PROT_NONE after free, never reused): after all snapshots are closed and Close() returned, no block may be live, freed twice or unknown")
	commands["mvcc-gc"] = mvCommand("C06", "gc", "as mvcc, plus forced GC() + wait-for-quiescence points at which the physical level-0 content (item, bornSn, deadSn) is compared with the model after draining its workers; oracle: live/visible versions present, collectable versions gone")
	commands["mvcc-live"] = mvCommandTie("C01", "live", "Tie.LiveTie", "a generated history, then a LONG-LIVED iterator on a random open snapshot (refresh rate 0/1/2/3/7): SeekFirst/Seek, then Next steps, with 0..6 generated operations of the history generator (Put/Delete/DeleteNode of the snapshot's keys and others, NewSnapshot, Open/Close of other snapshots, GC, drained workers) between any two iterator steps; real collection workers running; iterator observations (Valid, bytes, node identity) and the outputs of the interleaved operations are compared with the model; oracle: the scan yields exactly the items the snapshot held at creation; non-trivial = >= 3 interleaved segments that changed the physical store and a view of >= 2 items")
	commands["mvcc-delta"] = mvCommandTie("C05", "delta", "Tie.DeltaTie", "delta interleaving on a MOVING store: a generated history over a dozen keys and several epochs, then StoreToDisk of a random open snapshot (UseDeltaInterleaving, one visitor goroutine) paused after EVERY item it writes while 0..4 generated operations run (Put/Delete/DeleteNode, NewSnapshot, Open/Close, GC with drained workers) and, in a third of the pauses, the stored snapshot itself is released, some of its items are deleted and collected; data shards, delta files and per-operation outputs are compared with the model; oracles: data ∪ delta = snapshot, data strictly increasing, LoadFromDisk returns exactly the snapshot; non-trivial = at least one delta item, the physical store changed in >= 2 pauses, view of >= 3 items")
	commands["mvcc-delta-fine"] = func(a runArgs) error {
		f := mvCommandTie("C04", "delta-fine", "Tie.DeltaTie", "ORACLE ONLY: as mvcc-delta with user-managed memory on the guard allocator and a refresh rate of 1..3, the scan additionally paused inside Iterator.Refresh between dropping the old barrier session and taking the new one (the only moment a delta-mode scan holds no session): the stored snapshot is released, its items are deleted, collected and freed there; oracles: no fault (a use-after-free faults), no double free, no leak, data ∪ delta = snapshot, restore exact")
		return f(a)
	}
	commands["mvcc-iter"] = mvCommand("C09", "iter", "a generated history, then an iterator script (SeekFirst/Seek present-absent-below-above/Next/Refresh/SetRefreshRate in {0,1,2,3,7}) on a random open snapshot; non-trivial = the store physically holds versions invisible to that snapshot and the view has >=2 items")
	commands["mvcc-visit"] = mvCommand("C10", "visit", "a generated history, then Visitor on a random (often the oldest) open snapshot with shards in {1,2,3,4,5,8,16,64}, concurrency in {1,2,8}, the real pivots read through GetRangeSplitItems and fed to the model; 1 in 4 runs injects a callback error (oracle only); non-trivial = some key has several physical versions, view >= 2 items, shards > 1")
}
