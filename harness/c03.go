package main

import (
	"bytes"
	"encoding/json"
	"fmt"
	"math/rand"
	"os"
	"sort"

	"github.com/couchbase/nitro"
	"github.com/couchbase/nitro/skiplist"
)

// C03: several writers, one per goroutine, between two snapshots, under the deterministic scheduler
// parking before the level-0 publish CAS of Put and between GetNode and DeleteNode of Delete.

type nwOp struct {
	Op string `json:"op"` // put del get
	Bs []int  `json:"bs"`
}

type nwInput struct {
	Cmp     int      `json:"cmp"`
	Setup   []mvOp   `json:"setup"` // sequential history building the initial store (earlier epochs)
	Progs   [][]nwOp `json:"progs"`
	Choices []int    `json:"choices,omitempty"`
	Sticky  int      `json:"sticky"`
	Seed    int64    `json:"seed"`
	MM      bool     `json:"mm,omitempty"`   // user-managed memory on the guard allocator
	Fine    bool     `json:"fine,omitempty"` // also park around the delete mark (oracle-only runs: the writer model is coarser)
}

// systematic exploration (nitro-exh): decision chooser supplied by Explore, and what it decided
var nwCoarse func([]int) int
var nwDecisions []int
var nwDecEnabled [][]int

func nwGen(r *rand.Rand) *nwInput {
	in := &nwInput{Cmp: r.Intn(2), Sticky: []int{0, 30, 60}[r.Intn(3)], Seed: r.Int63()}
	return in
}

func nwRun(in *nwInput, r *rand.Rand, sink *CaseSink, replay bool) {
	installCounterHook()
	counter := nitro.VerifYieldHook
	mv := &mvInput{Mode: "mvcc", Cmp: in.Cmp, MM: in.MM}
	var e *mvExec
	if replay {
		mv.Ops = in.Setup
		e = mvReplay(mv)
	} else {
		// initial content: a few epochs with deletes and re-inserts, one snapshot kept open so that
		// dead versions stay physically present; ends with a NewSnapshot (fresh epoch, empty writer lists)
		e = newExec(mv)
		g := &mvGen{r: r, e: e, nkeys: 3 + r.Intn(3)}
		g.do(mvOp{Op: "neww"})
		g.do(mvOp{Op: "neww"})
		g.do(mvOp{Op: "neww"})
		for ep := 0; ep < 1+r.Intn(3); ep++ {
			for i := 0; i < 2+r.Intn(6); i++ {
				if r.Intn(3) > 0 {
					g.do(mvOp{Op: "put", W: r.Intn(3), Bs: b2i(g.item(r.Intn(g.nkeys)))})
				} else {
					g.do(mvOp{Op: "del", W: r.Intn(3), Bs: b2i(g.item(r.Intn(g.nkeys)))})
				}
			}
			g.do(mvOp{Op: "snap"})
		}
		in.Setup = g.ops
		nt := 2 + r.Intn(2)
		for t := 0; t < nt; t++ {
			var prog []nwOp
			for k := 0; k < 1+r.Intn(3); k++ {
				bs := g.item(r.Intn(g.nkeys))
				switch x := r.Intn(10); {
				case x < 5:
					prog = append(prog, nwOp{"put", b2i(bs)})
				case x < 9:
					prog = append(prog, nwOp{"del", b2i(bs)})
				default:
					prog = append(prog, nwOp{"get", b2i(bs)})
				}
			}
			in.Progs = append(in.Progs, prog)
		}
		if r.Intn(4) == 0 {
			// delete duel on a version born in the current epoch: one writer puts the key, then all of
			// them delete it (both lookups may complete before either removal marks the node)
			k := b2i(g.item(r.Intn(g.nkeys)))
			for t := range in.Progs {
				var prog []nwOp
				if t == 0 || r.Intn(3) == 0 {
					prog = append(prog, nwOp{"put", k})
				}
				prog = append(prog, nwOp{"del", k})
				if r.Intn(2) == 0 {
					prog = append(prog, nwOp{[]string{"put", "del", "get"}[r.Intn(3)], k})
				}
				in.Progs[t] = prog
			}
		}
	}
	e.quiesce()
	// the initial store as the model needs it, and node ids
	var s0 []string
	st := e.db.VerifStore()
	ids := map[*skiplist.Node]int{}
	{
		n, _ := st.HeadNode().VerifNext(0)
		for n != st.TailNode() && n != nil {
			itm := nitro.VerifItemOf(n)
			ids[n] = len(s0)
			s0 = append(s0, fmt.Sprintf("(%s, %d, %d)", cBytes(itm.Bytes()), itm.VerifBornSn(), itm.VerifDeadSn()))
			n, _ = n.VerifNext(0)
		}
	}
	nextID := len(s0)
	epoch := e.db.GetCurrSn()
	nt := len(in.Progs)
	points := []int{nitro.VerifPtDelGot}
	spoints := []int{skiplist.VerifPtInsPub}
	if in.Fine {
		spoints = append(spoints, skiplist.VerifPtSdCas, skiplist.VerifPtSdLoad)
	}
	sch := NewSched(nt, append(points, spoints...)...)
	nitro.VerifYieldHook = func(p int) {
		counter(p)
		if p == nitro.VerifPtDelGot {
			sch.Hook(p)
		}
	}
	inPut := make([]bool, nt)
	inFreeq := make([]bool, nt)
	skiplist.VerifYieldHook = func(p int) {
		// the barrier inserts a terminated session into its free queue (a skiplist) between these labels
		if p == skiplist.VerifPtRelLatched || p == skiplist.VerifPtRelQueued {
			if tid, ok := sch.Tid(); ok {
				inFreeq[tid] = p == skiplist.VerifPtRelLatched
			}
			return
		}
		// only the item store's publish CAS inside Put is a scheduling point (with user-managed memory
		// the barrier's free queue is a skiplist too and passes the same label)
		if p == skiplist.VerifPtInsPub {
			if tid, ok := sch.Tid(); ok && inPut[tid] && !inFreeq[tid] {
				sch.Hook(p)
			}
		}
		if in.Fine && (p == skiplist.VerifPtSdCas || p == skiplist.VerifPtSdLoad) {
			if tid, ok := sch.Tid(); ok && !inFreeq[tid] {
				sch.Hook(p)
			}
		}
	}
	defer func() { nitro.VerifYieldHook = counter; skiplist.VerifYieldHook = nil }()
	results := make([][]string, nt)
	type hop struct {
		tid, call, ret int
		op        nwOp
		ok        bool
	}
	var hist []hop
	step := 0
	sch.OnStep = func(tid, label int) {
		step++
		if os.Getenv("VERIF_DEBUG") != "" {
			var parts []string
			n, _ := st.HeadNode().VerifNext(0)
			for n != st.TailNode() && n != nil {
				nx, del := n.VerifNext(0)
				parts = append(parts, fmt.Sprintf("%q/%d/del=%v/lvl=%d", nitro.VerifItemOf(n).Bytes(), nitro.VerifItemOf(n).VerifBornSn(), del, n.Level()))
				n = nx
			}
			fmt.Fprintf(os.Stderr, "step %d tid %d label %d chain %v\n", step, tid, label, parts)
		}
	}
	for t := 0; t < nt; t++ {
		t := t
		w := e.ws[t%len(e.ws)]
		if t >= len(e.ws) {
			w = e.db.NewWriter()
		}
		sch.Go(t, func() {
			for _, op := range in.Progs[t] {
				sch.OpStart(t)
				call := step
				bs := i2b(op.Bs)
				switch op.Op {
				case "put":
					inPut[t] = true
					n := w.Put2(bs)
					inPut[t] = false
					if n != nil {
						ids[n] = nextID
						nextID++
						results[t] = append(results[t], fmt.Sprintf("RNode (Some %d)", ids[n]))
					} else {
						results[t] = append(results[t], "RNode None")
					}
					hist = append(hist, hop{t, call, step, op, n != nil})
				case "del":
					n, ok := w.Delete2(bs)
					if n != nil {
						results[t] = append(results[t], fmt.Sprintf("RDel (Some %d) %s", ids[n], cBool(ok)))
					} else {
						results[t] = append(results[t], "RDel None false")
					}
					hist = append(hist, hop{t, call, step, op, ok})
				case "get":
					n := w.GetNode(bs)
					if n != nil {
						results[t] = append(results[t], fmt.Sprintf("RNode (Some %d)", ids[n]))
					} else {
						results[t] = append(results[t], "RNode None")
					}
					hist = append(hist, hop{t, call, step, op, n != nil})
				}
			}
		})
	}
	var chooser func([]int) int
	if nwCoarse != nil {
		// systematic mode: the running writer changes only where the enumeration decides, and it is
		// asked only at operation boundaries and right after a delete mark was set
		last := -1
		nwDecisions, nwDecEnabled = nil, nil
		chooser = func(en []int) int {
			has := func(t int) bool {
				for _, e := range en {
					if e == t {
						return true
					}
				}
				return false
			}
			if last >= 0 && has(last) {
				n := len(sch.Trace)
				atSwitch := n > 0 && sch.Trace[n-1][0] == last && (sch.Trace[n-1][1] == 0 ||
					(n > 1 && sch.Trace[n-1][1] == skiplist.VerifPtSdLoad && sch.Trace[n-2][1] == skiplist.VerifPtSdCas && sch.Trace[n-2][0] == last))
				if !atSwitch {
					return last
				}
			}
			c := nwCoarse(en)
			nwDecisions = append(nwDecisions, c)
			nwDecEnabled = append(nwDecEnabled, append([]int(nil), en...))
			last = c
			return c
		}
	} else if len(in.Choices) > 0 {
		chooser = replayChooser(in.Choices)
	} else {
		chooser = randomChooser(rand.New(rand.NewSource(in.Seed)), in.Sticky)
	}
	sch.Run(nt, chooser, 2000)
	finished := sch.AllFinished()
	if !finished {
		sch.Abandon()
	}
	nitro.VerifYieldHook = counter
	skiplist.VerifYieldHook = nil
	in.Choices = nil
	var tr []string
	for _, s := range sch.Trace {
		in.Choices = append(in.Choices, s[0])
		tr = append(tr, fmt.Sprintf("(%d%%nat, %d%%nat)", s[0], s[1]))
	}
	var final []string
	for _, p := range e.physical() {
		final = append(final, fmt.Sprintf("(%s, %d, %d)", cBytes(p.item), p.born, p.dead))
	}
	var progs, res, counts []string
	for t, p := range in.Progs {
		var ops []string
		for _, o := range p {
			switch o.Op {
			case "put":
				ops = append(ops, "OPut "+cBytes(i2b(o.Bs)))
			case "del":
				ops = append(ops, "ODelete "+cBytes(i2b(o.Bs)))
			default:
				ops = append(ops, "OGet "+cBytes(i2b(o.Bs)))
			}
		}
		progs = append(progs, cList(ops))
		res = append(res, cList(results[t]))
		w := e.ws[t%len(e.ws)]
		counts = append(counts, cZ(w.VerifCount()))
	}
	coq := fmt.Sprintf("CNitro %d %s %d %s %s %s %s %s", in.Cmp, cList(s0), epoch, cList(progs), cList(tr), cList(res), cList(final), cList(counts))

	// ---- oracle: brute-force linearizability of the call/return history against the set semantics,
	// then the next snapshot must hold the outcome
	bad, sig := "", ""
	key := e.ref.key
	if finished {
		live0 := map[string]bool{}
		for k := range e.ref.live {
			live0[k] = true
		}
		n := len(hist)
		used := make([]bool, n)
		set := map[string]bool{}
		for k := range live0 {
			set[k] = true
		}
		var finalSets []map[string]bool
		var rec func(done int) bool
		rec = func(done int) bool {
			if done == n {
				c := map[string]bool{}
				for k, v := range set {
					if v {
						c[k] = true
					}
				}
				finalSets = append(finalSets, c)
				return true
			}
			minRet := 1 << 30
			for i := 0; i < n; i++ {
				if !used[i] && hist[i].ret < minRet {
					minRet = hist[i].ret
				}
			}
			found := false
			for i := 0; i < n; i++ {
				if used[i] || hist[i].call > minRet {
					continue
				}
				o := hist[i]
				k := key(i2b(o.op.Bs))
				present := set[k]
				ok := false
				switch o.op.Op {
				case "put":
					ok = o.ok == !present
				case "del":
					ok = o.ok == present
				default:
					ok = o.ok == present
				}
				if !ok {
					continue
				}
				old := set[k]
				if o.op.Op == "put" && o.ok {
					set[k] = true
				}
				if o.op.Op == "del" && o.ok {
					set[k] = false
				}
				used[i] = true
				if rec(done + 1) {
					found = true
				}
				used[i] = false
				set[k] = old
				if found && len(finalSets) > 8 {
					return true
				}
			}
			return found
		}
		if n <= 10 && !rec(0) {
			s := ""
			for _, o := range hist {
				s += fmt.Sprintf("[w%d %s(%v)=%v @%d..%d] ", o.tid, o.op.Op, o.op.Bs, o.ok, o.call, o.ret)
			}
			bad, sig = "the writers' history is not linearizable w.r.t. the set semantics: "+s, "c03-notlinearizable"
		}
		// next snapshot = the outcome of some linearization
		snap, _ := e.db.NewSnapshot()
		items, _ := e.scan(snap)
		got := map[string]bool{}
		for _, it := range items {
			got[key(it)] = true
		}
		if bad == "" && n <= 10 {
			match := false
			for _, fs := range finalSets {
				if len(fs) == len(got) {
					same := true
					for k := range fs {
						if !got[k] {
							same = false
						}
					}
					if same {
						match = true
					}
				}
			}
			if !match {
				bad, sig = fmt.Sprintf("the next snapshot holds %d items which is the outcome of no linearization of the history", len(items)), "c03-snapshot"
			}
		}
		if bad == "" && (int(snap.Count()) != len(items) || len(got) != len(items)) {
			bad, sig = fmt.Sprintf("next snapshot: Count()=%d, scan returns %d items with %d distinct keys", snap.Count(), len(items), len(got)), "c03-count"
		}
		for i := 1; i < len(items); i++ {
			if !e.ref.less(items[i-1], items[i]) && bad == "" {
				bad, sig = "next snapshot is not in comparator order", "c03-order"
			}
		}
		snap.Close()
	}
	if sch.stall {
		bad, sig = "a scheduled goroutine neither reached a yield point nor finished within 20s", "c03-stall"
	}
	// same key hit by several writers?
	keyHits := map[string]map[int]bool{}
	for _, o := range hist {
		k := key(i2b(o.op.Bs))
		if keyHits[k] == nil {
			keyHits[k] = map[int]bool{}
		}
		keyHits[k][o.tid] = true
	}
	contended := false
	for _, m := range keyHits {
		if len(m) >= 2 {
			contended = true
		}
	}
	idx := sink.Add(coq, in, fmt.Sprintf("writers%d-cmp%d", nt, in.Cmp), contended && len(sch.Trace) > len(hist))
	if bad != "" {
		sink.Fail(idx, bad, sig, in)
	}
	// close everything
	for sn, c := range e.ref.snapRef {
		for ; c > 0; c-- {
			e.snaps[sn].Close()
		}
		e.ref.snapRef[sn] = 0
	}
	e.finish()
	if len(e.bad) > 0 {
		sink.Fail(idx, e.bad[0], e.sig, in)
	}
	_ = bytes.Equal
	_ = sort.Ints
}

func init() {
	commands["nitro"] = nwCommand("C03", false)
	commands["nitro-mm"] = nwCommand("C04", true)
	commands["nitro-exh"] = nwExhCommand
}

// nitro-exh: pile-up programs on items of the current epoch (physical deletes), all coarse schedules
func nwExhCommand(a runArgs) error {
	sink := NewSink(a.out, "C03", "", a.seed)
	sink.meta.Rule = "SYSTEMATIC, oracle only: 3..4 neighbouring items put in the current epoch (so deletes unlink physically), three writer goroutines each deleting one of them and possibly putting or looking up a deleted one again; every schedule in which the running writer changes only at operation boundaries and right after a delete mark has been set is executed (depth-first, capped per program); oracle: brute-force linearizability of the call/return history, the next snapshot is the outcome of a linearization, Count() = scan; both comparators, Go-managed and user-managed memory"
	top := rand.New(rand.NewSource(a.seed))
	total := 0
	runProg := func(base *nwInput) {
		runs := Explore(12, 1500, func(ch func([]int) int) ([]int, [][]int) {
			in := *base
			in.Choices = nil
			nwCoarse = ch
			nwRun(&in, rand.New(rand.NewSource(in.Seed)), sink, true)
			nwCoarse = nil
			return nwDecisions, nwDecEnabled
		})
		total += runs
	}
	if a.replay != "" {
		bs, err := os.ReadFile(a.replay)
		if err != nil {
			return err
		}
		var rp struct {
			Case nwInput `json:"case"`
		}
		if err := json.Unmarshal(bs, &rp); err != nil {
			return err
		}
		nwRun(&rp.Case, rand.New(rand.NewSource(rp.Case.Seed)), sink, true)
		sink.cases = nil
		return sink.Flush()
	}
	for p := 0; p < a.n; p++ {
		cmp := p % 2
		nk := 3 + top.Intn(2)
		item := func(k int) []int {
			bs := []byte{byte('a' + k)}
			if cmp == 1 {
				bs = nitro.KVToBytes(bs, []byte{'v'})
			}
			return b2i(bs)
		}
		base := &nwInput{Cmp: cmp, Seed: top.Int63(), Fine: true, MM: p%3 == 2}
		base.Setup = []mvOp{{Op: "neww"}, {Op: "neww"}, {Op: "neww"}}
		if top.Intn(2) == 0 {
			// an earlier epoch with some of the keys, deleted again: dead versions in between
			base.Setup = append(base.Setup, mvOp{Op: "put", W: 0, Bs: item(top.Intn(nk))}, mvOp{Op: "snap"})
		}
		base.Setup = append(base.Setup, mvOp{Op: "snap"})
		for k := 0; k < nk; k++ {
			base.Setup = append(base.Setup, mvOp{Op: "put", W: k % 3, Bs: item(k)})
		}
		first := nk - 1
		if p > 0 {
			first = top.Intn(nk)
		}
		for t := 0; t < 3; t++ {
			victim := (first + nk - t) % nk
			prog := []nwOp{{"del", item(victim)}}
			if p == 0 && t == 0 {
				prog = append(prog, nwOp{"put", item(victim)})
			} else if p > 0 && top.Intn(3) > 0 {
				again := (first + nk - top.Intn(3)) % nk
				prog = append(prog, nwOp{[]string{"put", "put", "get"}[top.Intn(3)], item(again)})
			}
			base.Progs = append(base.Progs, prog)
		}
		runProg(base)
	}
	sink.meta.Extra = map[string]interface{}{"programs": a.n, "schedules": total}
	sink.cases = nil
	return sink.Flush()
}

func nwCommand(prop string, mm bool) func(a runArgs) error {
	return func(a runArgs) error {
		sink := NewSink(a.out, prop, "Tie.NitroConcTie", a.seed)
		sink.perFile = 100
		if mm {
			sink.meta.Rule = "user-managed memory on the guard allocator (a use-after-free faults, double frees and leaks are recorded): "
		}
		sink.meta.Rule += "an initial store built over 1..3 earlier epochs (deletes, re-inserts, one snapshot per epoch kept open so dead versions stay present), then 2..3 writer goroutines with 1..3 Put/Delete/GetNode each over 3..5 keys (both comparators), random schedules parking before the level-0 publish CAS of Put and between GetNode and DeleteNode of Delete; compared with the model: labels, per-op results with node identities, the final physical store and the writers' counts; oracle: brute-force linearizability of the call/return history and 'the next snapshot is the outcome of a linearization'; non-trivial = some key is hit by >=2 writers and at least one operation was preempted"
		if a.replay != "" {
			bs, err := os.ReadFile(a.replay)
			if err != nil {
				return err
			}
			var rp struct {
				Case nwInput `json:"case"`
			}
			if err := json.Unmarshal(bs, &rp); err != nil {
				return err
			}
			nwRun(&rp.Case, rand.New(rand.NewSource(rp.Case.Seed)), sink, len(rp.Case.Setup) > 0)
			return sink.Flush()
		}
		top := rand.New(rand.NewSource(a.seed))
		for i := 0; i < a.n; i++ {
			in := nwGen(top)
			in.MM = mm
			sink.Begin(in)
			nwRun(in, rand.New(rand.NewSource(in.Seed)), sink, false)
		}
		return sink.Flush()
	}
}
