#!/bin/sh
# usage: confirm_seed.sh <worktree> : confirms build, demo with/without the change, existing tests with the change
wt=$1
export GOFLAGS=-mod=mod GOPROXY=off GOSUMDB=off GOTOOLCHAIN=local
cd $wt || exit 2
log=$wt/SEED_confirm.log; : > $log
demo=$(python3 -c "import json;print(json.load(open('SEED_meta.json'))['demo_cmd'])")
echo "== build" >> $log; (go build ./... && go build -tags verif ./...) >> $log 2>&1 && echo BUILD_OK >> $log
echo "== demo with change (must fail)" >> $log; sh -c "$demo" >> $log 2>&1; echo "DEMO_WITH_EXIT=$?" >> $log
git diff -- . ':!seeded_demo_test.go' ':!skiplist/seeded_demo_test.go' ':!nodetable/seeded_demo_test.go' ':!SEED_*' > /tmp/$(basename $wt)_c.diff
git apply -R /tmp/$(basename $wt)_c.diff
echo "== demo without change (must pass)" >> $log; sh -c "$demo" >> $log 2>&1; echo "DEMO_WITHOUT_EXIT=$?" >> $log
git apply /tmp/$(basename $wt)_c.diff
echo "== existing tests with change" >> $log
mkdir -p /tmp/$(basename $wt)_demo; for f in seeded_demo_test.go skiplist/seeded_demo_test.go nodetable/seeded_demo_test.go; do [ -f $f ] && mv $f /tmp/$(basename $wt)_demo/$(echo $f | tr / _); done
go test -vet=off -count=1 ./skiplist/ ./nodetable/ >> $log 2>&1; echo "TESTS_SUB_EXIT=$?" >> $log
go test -vet=off -count=1 -timeout 30m . >> $log 2>&1; echo "TESTS_TOP_EXIT=$?" >> $log
[ -f /tmp/$(basename $wt)_demo/seeded_demo_test.go ] && mv /tmp/$(basename $wt)_demo/seeded_demo_test.go seeded_demo_test.go
[ -f /tmp/$(basename $wt)_demo/skiplist_seeded_demo_test.go ] && mv /tmp/$(basename $wt)_demo/skiplist_seeded_demo_test.go skiplist/seeded_demo_test.go
[ -f /tmp/$(basename $wt)_demo/nodetable_seeded_demo_test.go ] && mv /tmp/$(basename $wt)_demo/nodetable_seeded_demo_test.go nodetable/seeded_demo_test.go
rm -rf db.dump
echo DONE >> $log
