"""Per-property configuration for ./check."""

TRUSTED_BASE = [
    "Coq 8.16.1 kernel (coqc); vm_compute used for closed finite facts and for evaluating the model on correspondence cases; native_compute not used",
    "no axioms declared; Print Assumptions of every Props theorem is captured on every run (expected: Closed under the global context)",
    "hand-written Gallina model (coq/theories) of the anchored Go code; the model/code tie is the differential correspondence run, not a translation",
    "Go harness (/verif/harness): generators, canonicalisation of observables, oracle; python driver ./check",
    "hook files in /repo behind build tag verif (add-only)",
]

def run(cmd, nq, nt, **kw):
    d = {"cmd": cmd, "n_quick": nq, "n_thorough": nt}
    d.update(kw)
    return d

PROPS = {
    "C19": {
        "runs": [run("c19", 600, 6000)],
        "level_text": "Theorems (all item sequences with lengths 1..2^32-1 resp. 1..2^16-1, all bytes, any checksum function): written files read back exactly with equal checksums for both format versions; framing injective; KV helpers invert each other and CompareKV = bytes.Compare on keys (keys < 65536 bytes). The model is tied to item.go/file.go by evaluating it in Coq on the byte streams the real writer/reader produced and consumed.",
        "level_note": "Full for the format logic. os/bufio modelled as byte sink/source; crc32 compared on generated inputs; zero-length items and keys >= 65536 bytes are explicit hypotheses (refuted variants proved).",
        "assumptions": [
            "os and bufio are an append-only byte sink / sequential byte source (trusted)",
            "hash/crc32.ChecksumIEEE is compared with the Coq crc32 on every generated input; theorems hold for any checksum function",
            "items of length 0 are the format's terminator and keys of 65536+ bytes exceed KVToBytes' uint16 length field: both are hypotheses of the theorems (refuted variants proved)",
        ],
    },
}
