"""Per-property configuration for ./check."""

TRUSTED_BASE = [
    "Coq 8.16.1 kernel (coqc); vm_compute used for closed finite facts and for evaluating the model on correspondence cases; native_compute not used",
    "no axioms declared; Print Assumptions of every Props theorem is captured on every run (expected: Closed under the global context)",
    "hand-written Gallina model (coq/theories) of the anchored Go code; the model/code tie is the differential correspondence run, not a translation",
    "Go harness (/verif/harness): generators, canonicalisation of observables, oracle; python driver ./check",
    "hook files in /repo behind build tag verif (add-only)",
]

def run(cmd, nq, nt, **kw):
    d = {"cmd": cmd, "n_quick": nq, "n_thorough": nt}
    d.update(kw)
    return d

PROPS = {
    "C19": {
        "runs": [run("c19", 600, 6000)],
        "level_text": "Theorems (all item sequences with lengths 1..2^32-1 resp. 1..2^16-1, all bytes, any checksum function): written files read back exactly with equal checksums for both format versions; framing injective; KV helpers invert each other and CompareKV = bytes.Compare on keys (keys < 65536 bytes). The model is tied to item.go/file.go by evaluating it in Coq on the byte streams the real writer/reader produced and consumed.",
        "level_note": "Full for the format logic. os/bufio modelled as byte sink/source; crc32 compared on generated inputs; zero-length items and keys >= 65536 bytes are explicit hypotheses (refuted variants proved).",
        "assumptions": [
            "os and bufio are an append-only byte sink / sequential byte source (trusted)",
            "hash/crc32.ChecksumIEEE is compared with the Coq crc32 on every generated input; theorems hold for any checksum function",
            "items of length 0 are the format's terminator and keys of 65536+ bytes exceed KVToBytes' uint16 length field: both are hypotheses of the theorems (refuted variants proved)",
        ],
    },
    "C20": {
        "runs": [run("c20", 1500, 30000)],
        "level_text": "Theorem nt_refines_map: for every hash function and every Update/Get/Remove sequence the fast+overflow table's outputs and ItemsCount equal those of an association map (induction over ops with a per-bucket invariant). Node list: chain invariant preserved by Add (fresh node) / Remove, Keys = keys in list order. The model is tied to nodetable/table.go and nodelist.go by per-op output comparison plus the internal counters (FastHTCount/SlowHTCount/Conflicts/MemoryInUse).",
        "level_note": "Full. Bit-63 pointer tagging is modelled by contract (value = pointer + flag), so pointers with bit 63 set are outside the model; Go maps are modelled as total functions; adding a node twice (cycle) is excluded by the freshness hypothesis (refuted variant proved).",
        "assumptions": ["pointers fit in 63 bits", "EqualKeyFn compares the key stored behind the pointer with the lookup key", "nodes added to a NodeList are not already in it"],
    },
    "C09": {
        "runs": [run("mvcc-iter", 500, 8000)],
        "level_text": "Theorems for every comparator with the total-preorder laws, every store satisfying the store invariant (any invisible older/newer versions present), every snapshot number: Seek lands on the first visible version with key >= probe, SeekFirst on the first visible, Next on the next visible, Refresh does not move the iterator, a scan with any refresh rate = the view, the view is strictly increasing. The iterator model is tied to iterator.go / skiplist/iterator.go by replaying generated iterator scripts (Seek present/absent/below/above, Next, Refresh, SetRefreshRate) on real snapshots and evaluating the model on the same history.",
        "level_note": "Full for a store that does not change during the script (moving store: C15/C01). Model = quiescent skiplist as a sorted list; the store invariant is proved to hold in every reachable state of the MVCC model (C02).",
        "assumptions": ["the store is not modified while the iterator script runs", "comparator is a total preorder (laws proved for bytes.Compare and CompareKV models)"],
    },
    "C10": {
        "runs": [run("mvcc-visit", 400, 6000)],
        "level_text": "Theorem visitor_partition: for every comparator (laws), store (invariant), snapshot, refresh rate and ANY pivot list, the shard outputs concatenated in shard order equal the snapshot's view, which is strictly increasing (so: each item once, ascending within a shard, shard i before shard i+1). Tied to nitro.go Visitor by feeding the real pivots (GetRangeSplitItems) to the model and comparing per-shard delivery sequences; callback-error runs are checked by the oracle (error returned, termination under a watchdog).",
        "level_note": "Full for a quiescent store; concurrent mutation during the visit rests on C15. Worker-pool termination is observed (20 s watchdog), the channel/WaitGroup plumbing is not modelled.",
        "assumptions": ["the store is quiescent during the visit", "Go channels / sync.WaitGroup behave as documented"],
    },
    "C08": {
        "runs": [run("snap", 2500, 40000)],
        "level_text": "Theorems for ALL numbers of snapshots, goroutines, programs over Open/Close/GC and ALL schedules of the atomic steps (inductive invariant over a small-step interleaving semantics): no Open succeeds after the count reached zero, the count never leaves zero, each snapshot is retired at most once and exactly once at quiescence, the collector hands lists over in order, once, and a GC pass from any reachable quiescent state collects the whole consecutive retired run. The machine is tied to nitro.go by schedule replay: real goroutines run one at a time, parking at yield points between the atomic operations of Open/Close/collectDead/GC; the model replays the same thread choices and must reach the same yield label after every step, the same results and the same final open/retired sets and lastGCSn.",
        "level_note": "Full at atomic-step granularity under sequentially consistent sync/atomic. The snapshot sets (two skiplists) are treated as atomic sets (C13 is the statement about that). NewIterator/Iterator.Close are Open/Close on the handle.",
        "assumptions": ["sync/atomic operations are sequentially consistent", "skiplist insert/delete on the snapshot sets are atomic (C13)", "a goroutine closes only handles it holds"],
    },
}
