"""Per-property configuration for ./check."""

TRUSTED_BASE = [
    "Coq 8.16.1 kernel (coqc); vm_compute used for closed finite facts and for evaluating the model on correspondence cases; native_compute not used",
    "no axioms declared; Print Assumptions of every Props theorem is captured on every run (expected: Closed under the global context)",
    "hand-written Gallina model (coq/theories) of the anchored Go code; the model/code tie is the differential correspondence run, not a translation",
    "Go harness (/verif/harness): generators, canonicalisation of observables, oracle; python driver ./check",
    "hook files in /repo behind build tag verif (add-only)",
]

def run(cmd, nq, nt, **kw):
    d = {"cmd": cmd, "n_quick": nq, "n_thorough": nt}
    d.update(kw)
    return d

PROPS = {
    "C19": {
        "runs": [run("c19", 600, 6000)],
        "level_text": "Theorems (all item sequences with lengths 1..2^32-1 resp. 1..2^16-1, all bytes, any checksum function): written files read back exactly with equal checksums for both format versions; framing injective; KV helpers invert each other and CompareKV = bytes.Compare on keys (keys < 65536 bytes). The model is tied to item.go/file.go by evaluating it in Coq on the byte streams the real writer/reader produced and consumed.",
        "level_note": "Full for the format logic. os/bufio modelled as byte sink/source; crc32 compared on generated inputs; zero-length items and keys >= 65536 bytes are explicit hypotheses (refuted variants proved).",
        "assumptions": [
            "os and bufio are an append-only byte sink / sequential byte source (trusted)",
            "hash/crc32.ChecksumIEEE is compared with the Coq crc32 on every generated input; theorems hold for any checksum function",
            "items of length 0 are the format's terminator and keys of 65536+ bytes exceed KVToBytes' uint16 length field: both are hypotheses of the theorems (refuted variants proved)",
        ],
    },
    "C20": {
        "runs": [run("c20", 1500, 30000)],
        "level_text": "Theorem nt_refines_map: for every hash function and every Update/Get/Remove sequence the fast+overflow table's outputs and ItemsCount equal those of an association map (induction over ops with a per-bucket invariant). Node list: chain invariant preserved by Add (fresh node) / Remove, Keys = keys in list order. The model is tied to nodetable/table.go and nodelist.go by per-op output comparison plus the internal counters (FastHTCount/SlowHTCount/Conflicts/MemoryInUse).",
        "level_note": "Full. Bit-63 pointer tagging is modelled by contract (value = pointer + flag), so pointers with bit 63 set are outside the model; Go maps are modelled as total functions; adding a node twice (cycle) is excluded by the freshness hypothesis (refuted variant proved).",
        "assumptions": ["pointers fit in 63 bits", "EqualKeyFn compares the key stored behind the pointer with the lookup key", "nodes added to a NodeList are not already in it"],
    },
    "C09": {
        "runs": [run("mvcc-iter", 500, 8000), run("stress", 8, 150, model=False)],
        "level_text": "Theorems for every comparator with the total-preorder laws, every store satisfying the store invariant (any invisible older/newer versions present), every snapshot number: Seek lands on the first visible version with key >= probe, SeekFirst on the first visible, Next on the next visible, Refresh does not move the iterator, a scan with any refresh rate = the view, the view is strictly increasing. The iterator model is tied to iterator.go / skiplist/iterator.go by replaying generated iterator scripts (Seek present/absent/below/above, Next, Refresh, SetRefreshRate) on real snapshots and evaluating the model on the same history.",
        "level_note": "Full for a store that does not change during the script (moving store: C15/C01). Model = quiescent skiplist as a sorted list; the store invariant is proved to hold in every reachable state of the MVCC model (C02).",
        "assumptions": ["the store is not modified while the iterator script runs", "comparator is a total preorder (laws proved for bytes.Compare and CompareKV models)"],
    },
    "C10": {
        "runs": [run("mvcc-visit", 400, 6000)],
        "level_text": "Theorem visitor_partition: for every comparator (laws), store (invariant), snapshot, refresh rate and ANY pivot list, the shard outputs concatenated in shard order equal the snapshot's view, which is strictly increasing (so: each item once, ascending within a shard, shard i before shard i+1). Tied to nitro.go Visitor by feeding the real pivots (GetRangeSplitItems) to the model and comparing per-shard delivery sequences; callback-error runs are checked by the oracle (error returned, termination under a watchdog).",
        "level_note": "Full for a quiescent store; concurrent mutation during the visit rests on C15. Worker-pool termination is observed (20 s watchdog), the channel/WaitGroup plumbing is not modelled.",
        "assumptions": ["the store is quiescent during the visit", "Go channels / sync.WaitGroup behave as documented"],
    },
    "C08": {
        "runs": [run("snap", 2500, 40000), run("snap-exh", 2, 60)],
        "level_text": "Theorems for ALL numbers of snapshots, goroutines, programs over Open/Close/GC and ALL schedules of the atomic steps (inductive invariant over a small-step interleaving semantics): no Open succeeds after the count reached zero, the count never leaves zero, each snapshot is retired at most once and exactly once at quiescence, the collector hands lists over in order, once, and a GC pass from any reachable quiescent state collects the whole consecutive retired run. The machine is tied to nitro.go by schedule replay: real goroutines run one at a time, parking at yield points between the atomic operations of Open/Close/collectDead/GC; the model replays the same thread choices and must reach the same yield label after every step, the same results and the same final open/retired sets and lastGCSn.",
        "level_note": "Full at atomic-step granularity under sequentially consistent sync/atomic. The snapshot sets (two skiplists) are treated as atomic sets (C13 is the statement about that). NewIterator/Iterator.Close are Open/Close on the handle.",
        "assumptions": ["sync/atomic operations are sequentially consistent", "skiplist insert/delete on the snapshot sets are atomic (C13)", "a goroutine closes only handles it holds"],
    },
    "C02": {
        "runs": [run("mvcc", 500, 10000), run("cmps", 1, 1)],
        "level_text": "Refinement theorem mvcc_refines_spec: for every total-preorder comparator and EVERY finite operation sequence (Put/Delete/GetNode/DeleteNode through any handle/NewSnapshot/Open/Close in any order/GC/worker steps anywhere/Scan/ItemsCount through existing writers) every output of the model equals that of a sorted-list set specification with fresh handles and frozen snapshots; the store invariant holds in every reachable state; counts agree. Proved by induction over the op list with a relation carrying the store invariant, the snapshot bookkeeping and the garbage-list bookkeeping. The model is tied to nitro.go by running generated well-formed histories on real instances (both comparators, Go-managed memory and the guard allocator) and evaluating the model on the same history in Coq: per-op results, node identities, Count(), ItemsCount and full scans must be equal.",
        "level_note": "Full for single-goroutine histories (the property's quantifier). The skiplist appears as its quiescent level-0 content (sorted list); that abstraction is what C13/C14 are about. DeleteNode handles whose node has been freed are excluded for user-managed memory (caller misuse; see C04).",
        "assumptions": ["operations are issued from one goroutine (C03 covers concurrent writers)", "the key comparator is a total preorder", "DeleteNode is given a node that has not been freed"],
    },
    "C01": {
        "runs": [run("mvcc-iso", 300, 6000), run("stress", 12, 200, model=False)],
        "level_text": "Theorem snapshot_isolation: in every reachable state of the model (any history of Put/Delete by any writers, creation/closing of other snapshots in any order, GC passes and collection-worker steps at any point) the view of the physical store through each open snapshot equals the item list frozen at its creation; a scan through the iterator loop with any refresh rate returns exactly that view, strictly increasing; Count() equals its length (refinement theorem). Tied to the code by re-scanning open snapshots inside and at the end of generated histories on real instances, with real collection workers running, and evaluating the same history in the Coq model.",
        "level_note": "Full at operation granularity (every interleaving of whole operations and worker list-removals is an op list). Below it — a scan overlapping a physical unlink inside the skiplist, concurrent readers — rests on C15/C13 and is exercised by the stress oracle only.",
        "assumptions": ["operation-granularity interleaving; finer interleavings rest on C13/C15", "the key comparator is a total preorder"],
    },
    "C06": {
        "runs": [run("mvcc-gc", 400, 8000), run("snap", 800, 20000)],
        "level_text": "Theorems: gc_precision (every reachable state: each open snapshot's view of the physical store is its frozen content, so nothing visible is ever removed), gc_complete (after any history, GC + drained workers leave a dead version only if it died in the current epoch or an open snapshot has sn <= its deadSn; nothing pending), counts; and for Closes racing from any goroutines under ALL schedules: collector_safe (lists handed over in order, once, after retirement) and collector_complete (a GC pass from any reachable quiescent state collects the whole retired run). Tied to the code by (a) histories with forced GC() and wait-for-quiescence points at which the physical level-0 content (item, bornSn, deadSn) is compared with the model, and (b) schedule replay of Open/Close/GC goroutines against the collector machine.",
        "level_note": "Precision/completeness full at operation granularity; racing Close protocol full at atomic-step granularity. Collection is in snapshot order, so a dead version behind an older open snapshot stays (the oracle allows that band; the correspondence pins it to the model). Physical unlinking under contention inherits C13/C14. MemoryInUse is compared only through node counts and the allocator ledger (C07).",
        "assumptions": ["at least one writer exists (collection workers are per writer)", "sync/atomic sequentially consistent", "skiplist operations on the store are atomic at this level (C13)"],
    },
    "C16": {
        "runs": [run("barrier", 2000, 30000), run("barrier-exh", 1, 30)],
        "level_text": "Theorem barrier_safe for ALL programs over Acquire/Release(any held token)/FlushSession by any number of goroutines and ALL schedules of the atomic steps (inductive invariant, 17 fields): the reclamation panic is unreachable; destructors run in flush order, each exactly once, with the object of their flush; while a token of a session is held neither that session's flush nor any later one has been destructed. Tied to skiplist/access_barrier.go by schedule replay: real goroutines park at ten yield points between the atomic operations; the model replays the same thread choices and must reach the same label and the same number of destructor calls after EVERY step, the same results, destructor log, queue, freeSeqno and activeSeqno.",
        "level_note": "Full at atomic-step granularity under sequentially consistent atomics, for fewer than 2^30 operations in total (the proof shows the int32 offset trick needs holders + in-flight accessors < 2^30; beyond that the model — and the code — misbehave). The free queue (a skiplist) is treated as an atomic sorted set (C13).",
        "assumptions": ["sync/atomic sequentially consistent; sync.Mutex mutual exclusion", "fewer than 2^30 barrier operations (simultaneous accessors)", "free-queue skiplist operations atomic (C13)"],
    },
    "C17": {
        "runs": [run("barrier-live", 2000, 30000), run("barrier-live-exh", 1, 30)],
        "level_text": "Theorem barrier_live for ALL programs and ALL schedules: whenever no call is in progress and every token has been released, the free queue is empty and the destructor has run for every FlushSession so far. The invariant carries the responsibility clause 'a ready queue head implies the try-lock is held or some goroutine is between its queue insert / flag reset and its (re-)examination of the queue'. Regression witness for the original code (lost wake-up) proved by computation. Tie: same schedule replay as C16 with a generator that makes sessions terminate close together; oracle: at quiescence destructor calls = flushes and the queue is empty.",
        "level_note": "Full at atomic-step granularity; same assumptions as C16. That an idle or closed Nitro instance therefore holds no unlinked-but-unfreed nodes additionally uses C07's ledger (checked with the guard allocator).",
        "assumptions": ["as C16"],
    },
    "C18": {
        "runs": [run("c18", 1200, 20000)],
        "level_text": "Theorems: assemble_concat / assemble_stats (any number of segments incl. empty ones anywhere, arbitrary levels: every level chain of the assembled list is the concatenation restricted to nodes of that height, unmarked; statistics exact); merge_seek_first / merge_seek (for any number of ascending lists with overlapping/duplicate/empty contents, SeekFirst or Seek x called in ANY iterator state yields exactly the sorted multiset union (restricted to >= x); no nil dereference). Tied to builder.go / merger.go: generated segment layouts (sequential and concurrent fill, both memory modes) with the drawn levels read back, all level walks and statistics compared, then Insert/Delete/Lookup on the assembled list replayed on the step-machine model; merge scripts repositioning before/during/after scans compared observation by observation.",
        "level_note": "Full. Concurrent fill touches disjoint nodes and shares only s.level (a running maximum); the binary heap is modelled as a bag with minimal-key extraction (ties between equal keys are not observable through Get).",
        "assumptions": ["segment items are added in ascending order (builder contract)", "input lists of the merge iterator are quiescent during the scan"],
    },
    "C11": {
        "runs": [run("disk-load", 700, 8000, search_rounds=1, search_mult=1)],
        "level_text": "Theorems over the backup-directory model, for every checksum function and every stored content: an intact backup loads exactly; every proper prefix of a shard file fails; a shard truncated at any offset or removed fails the load; unparsable/missing files.json, unparsable checksums.json or nitro.json, a checksum list of the wrong length are errors (never an empty database), a missing checksums.json gives the exact content; a manifest entry redirected to a shard with a different checksum is detected; one altered payload byte is detected (CRC-32 single-byte theorem). Tied to LoadFromDisk by fault injection: a stored database (delta on/off) is damaged by single faults (every file removed, manifest bytes altered/truncated, shard bit flips and truncations, redirected entries, k = 1, conc, conc+1, all shards truncated at once); LoadFromDisk runs in child processes under a 20 s watchdog; ok(items)/error/panic/hang is compared with the model's load of the same damaged image.",
        "level_note": "Full for the loader logic as modelled. Manifests enter the model as what encoding/json makes of them (parsed / unparsable / missing) — encoding/json, os and bufio are trusted. Detection of altered payload bytes rests on the XOR-of-CRC32 checksum: C11_crc32_single_byte proves that CRC-32 separates any two strings differing in one byte (all lengths, all positions) and C11_payload_byte_detected lifts it to the loader (one altered payload byte in any item of any shard => error); changes of several bytes can collide in principle (32-bit checksum); item reordering inside a shard and paired flips are invisible to an XOR of CRCs (format limit). Termination is observed (watchdog), not proved.",
        "assumptions": ["encoding/json, os, bufio behave as documented", "single-fault-per-file damage; checksum collisions excluded"],
    },
    "C12": {
        "runs": [run("disk-store", 240, 3000, search_rounds=1, search_mult=1)],
        "level_text": "Theorem crash_safe: for every stored content and every crash stage of the (repaired) StoreToDisk effect order — shard files holding arbitrary prefixes before the data manifest exists, manifest half-written, written without/with half/with complete checksums — the directory fails to load or loads exactly. Tied to the code by (i) copying the directory at every file-system mutation boundary of a real StoreToDisk (yield points; DiskBlockSize 64..4096) plus torn-last-file variants, loading each image in a child and comparing with the model; (ii) re-running StoreToDisk in children under RLIMIT_FSIZE for every block multiple and random budgets: a nil result must leave a directory that restores exactly.",
        "level_note": "Partial: the file system is modelled as per-file prefixes of the final content with the observed order of manifest writes — no reordering of writes across files by the kernel, no fsync semantics, no torn sectors inside a prefix. 'Every failing write is reported' is established by the budget runs (oracle), not by a theorem.",
        "assumptions": ["a crash leaves each file as a prefix of what was written to it, files appear in program order", "RLIMIT_FSIZE failures stand in for a full disk"],
    },
    "C05": {
        "runs": [run("mvcc-backup", 160, 3000)],
        "level_text": "Theorems: backup_restore_exact (for every comparator, checksum function, reachable state, open snapshot — latest or older, with other versions physically present —, refresh rate and ANY pivots: loading what StoreToDisk writes yields exactly the snapshot's items in order), composed from visitor_partition, frame round-trip and load_intact; restored_refines (the restored instance refines the set/snapshot specification for every later history). Tied to the code by real round trips: StoreToDisk of a random open snapshot (concurrency 1/2/8, both comparators, both memory modes), the real pivots fed to the model, shard files and checksums compared byte for byte with the model's frames, LoadFromDisk into a fresh instance compared with the model's load, then a further history on the restored instance compared with the model started from the restored state.",
        "level_note": "Full for a quiescent backup without delta interleaving. Delta interleaving and writers/GC running during the backup are exercised only by the oracle (fault and stress runs); the goroutine/channel handshake of the delta writers is not modelled. Items must be non-empty (format terminator) and < 2^32 bytes.",
        "assumptions": ["no concurrent mutation during the modelled backup", "items non-empty and shorter than 2^32 bytes", "os/bufio/encoding/json trusted"],
    },
    "C07": {
        "runs": [run("mvcc-alloc", 250, 5000), run("mvcc-backup", 80, 1500)],
        "level_text": "Theorems: ledger (in every reachable state of every history each node allocated by a successful Put is either still linked in the store or was handed to reclamation exactly once — never both, never twice, nothing unallocated), all_closed_clean (with every snapshot closed, GC + drained workers leave only live versions), and the barrier theorems (every handed-over object is destructed exactly once, nothing pending at quiescence, all schedules). Tied to the code with the guard allocator (each block its own mmap, PROT_NONE after free, addresses never reused): after all handles are closed and Close() returned there must be no live block, no double free, no free of an unknown pointer — for instances built by Put and by LoadFromDisk; the physical store at quiescence is compared with the model.",
        "level_note": "Full at operation granularity for the node/item ledger. Which goroutine frees and when is abstracted (the barrier contract is C16/C17); blocks of rejected Puts, the store sentinels and the blocks allocated by LoadFromDisk are covered by the allocator oracle, not by the ledger theorem.",
        "assumptions": ["barrier contract (C16/C17)", "operation-granularity interleaving"],
    },
    "C03": {
        "runs": [run("nitro", 1200, 20000)],
        "level_text": "Theorem nitro_linearizable for every comparator, every initial store satisfying the store invariant, ANY number of writers/programs and ALL schedules: the store invariant is preserved, a ghost log in which every operation is entered at a step between its call and return (a losing Delete right behind the Delete that decided it) replays sequentially on the set specification with the recorded results and ends in the store's content, and it contains exactly each writer's completed operations in program order; quiescent_counts: the writers' counts add up to the change of the set and their garbage lists hold exactly this epoch's dead versions once. Tied to nitro.go by schedule replay of real writer goroutines parked before the level-0 publish CAS and between GetNode and DeleteNode: labels, per-op results with node identities, final physical store and writer counts must equal the model's; oracle: brute-force linearizability of the call/return history and 'the next snapshot is the outcome of a linearization'.",
        "level_note": "Partial by layering: full proof assuming the skiplist is an atomic ordered-set object whose insert fails iff the (pred, succ) adjacency changed; that assumption is C13 (tied by the step-machine replay there). Upper-level linking and same-epoch physical deletion run without preemption in this tie; the finer interleavings are exercised by the C04/C13 runs.",
        "assumptions": ["skiplist insert/delete atomic at this level (C13)", "sync/atomic sequentially consistent; plain reads of Item.deadSn atomic (amd64)", "one writer per goroutine, no NewSnapshot during the window"],
    },
    "C04": {
        "runs": [run("smr", 300, 6000, model=False), run("nitro-mm", 500, 8000), run("barrier", 600, 10000), run("stress", 6, 120, model=False)],
        "level_text": "Theorems: ebr_safe / freed_absorbing (reclamation protocol, every event sequence: if accesses happen inside a token on nodes reached under it, flushed nodes are unlinked at every level and stay so, and destructors obey the barrier contract, then no accessor touches freed memory and nothing is freed twice); barrier_contract (the access barrier meets that contract for ALL programs and schedules — C16/C17). Tie: (a) writer goroutines on instances with user-managed memory on the guard allocator (every block its own mmap, PROT_NONE after free, never reused), scheduled at the publish CAS, successor test/own-pointer/upper-level link/re-check, mark CAS, help-delete CAS, between GetNode and DeleteNode, and (one-key duels with tall nodes) inside the path search and inside Acquire, each case in a child process: a use-after-free is a SIGSEGV, double/unknown frees are recorded, a walk that never follows a pointer into freed memory finds freed-but-linked nodes, Close must leave nothing live; (b) the concurrent-writer model (C03) replayed on the guard allocator; (c) the barrier machine behind barrier_contract replayed against skiplist/access_barrier.go step by step (as C16); (d) free-running stress with readers, refresh rates, snapshot churn, GC and free workers.",
        "level_note": "Partial by nature: the protocol theorem is about event traces; that the Go loads/stores correspond to those events (accesses only inside tokens, reach discipline) is established by reading the code and by the guard-allocator runs, not by proof. The obligations the original code violated (D8: Delete2 accessed a node outside a token; D9: Insert4 relinked a deleted node; D15: Insert4 linked a node in front of a deleted equal item) were found by these runs (D15: by a refuted lemma first) and repaired.",
        "assumptions": ["accessors dereference nodes only between Acquire and Release (Insert3, Delete, DeleteNode, iterators, repaired Delete2)", "guard allocator faults on every access to a freed block (page granularity)", "sync/atomic sequentially consistent"],
    },
}
