#!/bin/sh
# usage: runall.sh [tier] : runs every registered check (4 at a time) and prints one summary line each
tier=${1:-quick}
cd /verif
ids=$(python3 -c "import sys; sys.path.insert(0,'lib'); from props import PROPS; print(' '.join(sorted(PROPS)))")
mkdir -p build/logs
echo $ids | tr ' ' '\n' | xargs -P 4 -I{} sh -c "./check {} --tier $tier > build/logs/{}.$tier.log 2>&1; echo \"{} exit \$?: \$(tail -n 1 build/logs/{}.$tier.log)\""
