#!/usr/bin/env python3
"""archive_seed.py <worktree> <seed-id> <caught-by json>  : copies a confirmed seeded change into /verif/seeded/<id>/"""
import sys, os, json, shutil, re
wt, sid, caught = sys.argv[1], sys.argv[2], json.loads(sys.argv[3])
dst = os.path.join('/verif/seeded', sid)
os.makedirs(dst, exist_ok=True)
shutil.copy(os.path.join(wt, 'SEED_patch.diff'), os.path.join(dst, 'patch.diff'))
for f in ('seeded_demo_test.go', 'skiplist/seeded_demo_test.go', 'nodetable/seeded_demo_test.go'):
    p = os.path.join(wt, f)
    if os.path.exists(p):
        shutil.copy(p, os.path.join(dst, 'demo_' + f.replace('/', '_')))
m = json.load(open(os.path.join(wt, 'SEED_meta.json')))
log = open(os.path.join(wt, 'SEED_confirm.log')).read()
conf = {k: (re.search(k + r'=(\d+)', log).group(1) if re.search(k + r'=(\d+)', log) else None)
        for k in ('DEMO_WITH_EXIT', 'DEMO_WITHOUT_EXIT', 'TESTS_SUB_EXIT', 'TESTS_TOP_EXIT')}
meta = {
    "id": sid, "property": m["property"], "summary": m["summary"], "needs_to_manifest": m["needs"],
    "demo_cmd": m["demo_cmd"].replace(wt, "<worktree>"),
    "confirmed": {
        "how": "in a scratch worktree of /repo HEAD: go build ./... && go build -tags verif ./...; demonstration with the change (must fail) and with the change reverted (must pass); existing suite with the change: go test ./skiplist/ ./nodetable/ and go test . (package mm excluded: fails on this machine regardless)",
        "build_ok": "BUILD_OK" in log, **conf},
    "checks": caught,
}
json.dump(meta, open(os.path.join(dst, 'meta.json'), 'w'), indent=1)
print("archived", sid, conf)
