#!/usr/bin/env python3
"""Regenerates MANIFEST.json from lib/props.py (single source of truth)."""
import json, os, sys, subprocess
ROOT = os.path.dirname(os.path.dirname(os.path.abspath(__file__)))
sys.path.insert(0, os.path.join(ROOT, "lib"))
from props import PROPS, TRUSTED_BASE
ids = [json.loads(l)["id"] for l in open(os.path.join(ROOT, "properties.jsonl"))]
hooks = subprocess.run(["git", "-C", "/repo", "log", "--format=%H %s"], capture_output=True, text=True).stdout.strip().split("\n")
hook_commits = [l.split()[0] for l in hooks if l.split(" ", 1)[1].startswith("verif:")]
checks = []
for pid in ids:
    if pid not in PROPS or PROPS[pid].get("pending"):
        continue
    c = PROPS[pid]
    checks.append({
        "property_id": pid,
        "quick_cmd": f"./check {pid} --tier quick",
        "thorough_cmd": f"./check {pid} --tier thorough",
        "evidence_file": f"/verif/evidence/{pid}.json",
        "replay_cmd_template": f"./check {pid} --replay {{path}}",
        "engine": "coq-model+correspondence",
        "level_claimed": {"category": "proof", "text": c["level_text"], "design_ref": c.get("design_ref", "DESIGN.md §4 " + pid)},
        "level_note": c["level_note"],
        "technique": c.get("technique", "machine-checked proof in Coq 8.16 over a hand-written Gallina model + differential correspondence (vm_compute) against the implementation built from /repo"),
    })
na = [{"property_id": pid, "reason": PROPS.get(pid, {}).get("pending", "check not built yet in this round (work in progress); see DESIGN.md")} for pid in ids if pid not in PROPS or PROPS[pid].get("pending")]
m = {
    "version": 1,
    "setup_cmd": "./setup.sh",
    "hooks": {
        "guard": "verif",
        "enable": "go build -tags verif (harness module replaces github.com/couchbase/nitro => /repo)",
        "baseline_off_cmd": "cd /repo && go test -vet=off -count=1 -timeout 25m ./...",
        "source_commits": hook_commits,
        "add_only": True,
    },
    "engines": [{"name": "coq-model+correspondence", "path": "/verif/check", "serves_properties": [c["property_id"] for c in checks],
                 "kind_free_text": "Coq 8.16 theorems over hand-written models; Go harness runs the implementation, coqc evaluates the model on the same cases (vm_compute)"}],
    "checks": checks,
    "not_applicable": na,
    "notes": "Trusted base: " + " | ".join(TRUSTED_BASE),
}
json.dump(m, open(os.path.join(ROOT, "MANIFEST.json"), "w"), indent=1)
print("checks:", [c["property_id"] for c in checks], "not_applicable:", [n["property_id"] for n in na])
