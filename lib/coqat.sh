#!/bin/sh
# usage: coqat.sh <file.v> <line> : show the proof state after <line> lines
f=$1; n=$2
( head -n "$n" "$f"; echo; echo "Show." ) | timeout 300 coqtop -R /verif/coq/theories NV 2>&1 | tail -n ${3:-40}
