#!/usr/bin/env python3
"""regenerates the table at the end of seeded/README.md from the meta.json files"""
import json, glob, os
p = '/verif/seeded/README.md'
s = open(p).read()
head = s[:s.index('| id | property |')]
rows = []
for d in sorted(glob.glob('/verif/seeded/S*/')):
    m = json.load(open(d + 'meta.json'))
    sid = os.path.basename(d.rstrip('/'))
    checks = '; '.join(f"**{k}** {v}" for k, v in m['checks'].items())
    rows.append(f"| {sid} | {m['property']} | {m['summary'].split('. ')[0][:260]} | {m['needs_to_manifest'][:260]} | {checks} |")
open(p, 'w').write(head + "| id | property | change | needs | reported by |\n|---|---|---|---|---|\n" + "\n".join(rows) + "\n")
print(len(rows), "seeds")
