#!/bin/sh
# usage: seedtest.sh <patch.diff> <Cxx> [<Cyy> ...] : apply a seeded change to /repo, run the quick checks, undo it
set -u
patch=$1; shift
cd /repo && git apply --check "$patch" || { echo "patch does not apply"; exit 2; }
git -C /repo apply "$patch"
for p in "$@"; do
  ( cd /verif && timeout 1500 ./check "$p" --tier quick 2>&1 | tail -6 | sed "s/^/[$p] /" )
done
git -C /repo checkout -- . && git -C /repo status --short | head -3
