#!/bin/sh
# Offline setup: full Coq build (.vo, no quick modes) and a warm build of the harness.
set -e
cd "$(dirname "$0")"
export GOFLAGS=-mod=mod GOPROXY=off GOSUMDB=off GOTOOLCHAIN=local
mkdir -p build evidence replays
( cd coq && coq_makefile -f _CoqProject -o Makefile >/dev/null && timeout 3000 make -j16 >build.log 2>&1 || { tail -50 build.log; exit 1; } )
cp /repo/go.sum harness/go.sum 2>/dev/null || true
( cd harness && go build -tags verif -o ../build/vh . )
echo setup ok
